module reviews

go 1.21
