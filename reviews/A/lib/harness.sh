#!/bin/bash
# usage: harness.sh TREE CASEDIR   (CASEDIR contains src/*.go, package main)
# compiles CASEDIR/src with TREE's rewriter into a temp module, runs the result; prints output
export GOFLAGS=-mod=mod GOPROXY=off GOSUMDB=off GOTOOLCHAIN=local
TREE=$(cd "$1" && pwd); CASE=$(cd "$2" && pwd)
GOVER=${GOVER:-1.21}
W=$(mktemp -d /tmp/hunt/A/HUNT/.w.XXXXXX)
trap 'rm -rf "$W"' EXIT
mkdir -p $W/tool $W/src $W/out
cat > $W/go.mod <<EOT
module t

go $GOVER

require github.com/goghcrow/go-co v0.0.0
replace github.com/goghcrow/go-co => $TREE
EOT
cp $TREE/go.sum $W/go.sum
cp $CASE/src/*.go $W/src/
cat > $W/tool/main.go <<'EOT'
package main

import (
	"os"
	"github.com/goghcrow/go-co/rewriter"
)

func main() { rewriter.Compile(os.Args[1], os.Args[2]) }
EOT
cd $W
go run ./tool $W/src $W/out > $W/compile.log 2>&1
rc=$?
if [ $rc -ne 0 ]; then echo "COMPILE-FAIL"; grep -v '^\[' $W/compile.log | head -${LINES_MAX:-15}; exit 2; fi
if [ -n "$SHOW" ]; then cat $W/out/*.go; fi
go run ./out 2>&1 | head -${LINES_MAX:-60}
exit ${PIPESTATUS[0]}
