package main

import (
	"fmt"

	. "github.com/goghcrow/go-co"
)

func dead() Iter[int] {
	for i := 0; i < 3; i++ {
		v := i * 2
		Yield(i)
		continue
		Yield(v)
	}
	return nil
}

func dump[T any](name string, it Iter[T]) {
	fmt.Print(name, ":")
	for v := range it {
		fmt.Print(" ", v)
	}
	fmt.Println()
}

func main() {
	dump("dead", dead())
}
