package main

import (
	"fmt"

	. "github.com/goghcrow/go-co"
)

func g() Iter[int] {
	for i := 0; i < 3; i++ {
		Yield(i)
	}
	return nil
}

// legal Go: range clause without iteration variables
func count() int {
	n := 0
	for range g() {
		n++
	}
	return n
}

func main() {
	fmt.Println(count())
}
