package main

import (
	"fmt"
	"maps"
	"slices"

	. "github.com/goghcrow/go-co"
)

func keys(m map[string]int) Iter[string] {
	var ks []string
	for k := range maps.Keys(m) {
		ks = append(ks, k)
	}
	slices.Sort(ks)
	for _, k := range ks {
		Yield(k)
	}
	return nil
}

func main() {
	for v := range keys(map[string]int{"b": 1, "a": 2}) {
		fmt.Print(v, " ")
	}
	fmt.Println()
}
