package main

import (
	"fmt"

	. "github.com/goghcrow/go-co"
)

// goto inside a plain function literal nested in a generator (supported since 62c45cf)
func firstNeg(xss [][]int) Iter[int] {
	check := func(xs []int) int {
		if len(xs) == 0 {
			goto done
		}
		for _, x := range xs {
			if x < 0 {
				return x
			}
		}
	done:
		return 0
	}
	for i := 0; i < len(xss); i++ {
		Yield(check(xss[i]))
	}
	return nil
}

func main() {
	for v := range firstNeg([][]int{{1, -2}, {}, {3}}) {
		fmt.Print(v, " ")
	}
	fmt.Println()
}
