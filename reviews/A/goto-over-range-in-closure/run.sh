#!/bin/bash
# usage: run.sh TREE ; exit 1 when the defect is present
HERE=$(cd "$(dirname "$0")" && pwd)
TREE=${1:-/tmp/hunt/A}
out=$(GOVER=1.21 "$HERE/../lib/harness.sh" "$TREE" "$HERE" 2>&1)
echo "$out"
if [ "$(echo "$out" | tr -d ' \n')" = "-200" ]; then echo "PASS (defect absent)"; exit 0; fi
echo "DEFECT PRESENT (expected output: -200)"; exit 1
