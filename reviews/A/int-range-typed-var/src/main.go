package main

import (
	"fmt"

	. "github.com/goghcrow/go-co"
)

// the untyped constant operand takes the type of the iteration variable (go1.22 spec)
func intRange() Iter[int64] {
	var i int64
	for i = range 3 {
		Yield(i)
	}
	return nil
}

func main() {
	for v := range intRange() {
		fmt.Print(v, " ")
	}
	fmt.Println()
}
