package main

import (
	"fmt"

	. "github.com/goghcrow/go-co"
)

// labelled range inside a plain closure nested in a generator
func labelledInClosure(xss [][]int) Iter[int] {
	find := func(t int) bool {
	outer:
		for _, xs := range xss {
			for _, x := range xs {
				if x == t {
					return true
				}
				if x < 0 {
					continue outer
				}
			}
		}
		return false
	}
	for i := 0; i < 4; i++ {
		if find(i) {
			Yield(i)
		}
	}
	return nil
}

func dump[T any](name string, it Iter[T]) {
	fmt.Print(name, ":")
	for v := range it {
		fmt.Print(" ", v)
	}
	fmt.Println()
}

func main() {
	dump("labelledInClosure", labelledInClosure([][]int{{1, -1, 2}, {3}}))
}
