#!/bin/bash
# DEFECT: C04 - 'var i int64; for i = range 3' -> NewIntegerIter(3) infers int, output does not build (range.go:rewriteRanges integer case)
# usage: run.sh TREE   -- exit 1 when the defect is present, 0 when absent
D=$(cd "$(dirname "$0")" && pwd)

exec "$D/../runcase.sh" "${1:?tree}" "$D"
