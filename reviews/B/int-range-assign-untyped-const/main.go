package main

import (
	"fmt"
	"os"

	co "github.com/goghcrow/go-co"
)

func gen() co.Iter[int64] {
	var i int64
	for i = range 3 {
		co.Yield(i)
	}
	return nil
}

func main() {
	var got []int64
	for v := range gen() {
		got = append(got, v)
	}
	fmt.Println(got)
	if fmt.Sprint(got) != "[0 1 2]" {
		os.Exit(1)
	}
}
