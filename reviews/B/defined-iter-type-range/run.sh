#!/bin/bash
# DEFECT: C06 - 'type Ints co.Iter[int]' consumer range not rewritten -> 'cannot range over xs', output does not build (rewrite.go:rewriteForRanges/isIterator)
# usage: run.sh TREE   -- exit 1 when the defect is present, 0 when absent
D=$(cd "$(dirname "$0")" && pwd)

exec "$D/../runcase.sh" "${1:?tree}" "$D"
