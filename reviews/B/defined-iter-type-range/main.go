package main

import (
	"fmt"
	"os"

	co "github.com/goghcrow/go-co"
)

type Ints co.Iter[int]

func gen() co.Iter[int] {
	co.Yield(1)
	co.Yield(2)
	return nil
}

func sum(xs Ints) (s int) {
	for v := range xs {
		s += v
	}
	return
}

func main() {
	s := sum(Ints(gen()))
	fmt.Println(s)
	if s != 3 {
		os.Exit(1)
	}
}
