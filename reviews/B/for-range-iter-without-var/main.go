package main

import (
	"fmt"
	"os"

	co "github.com/goghcrow/go-co"
)

func gen() co.Iter[int] {
	co.Yield(1)
	co.Yield(2)
	return nil
}

func main() {
	n := 0
	for range gen() {
		n++
	}
	fmt.Println(n)
	if n != 2 {
		os.Exit(1)
	}
}
