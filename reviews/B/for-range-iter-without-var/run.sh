#!/bin/bash
# DEFECT: C06 - 'for range gen() {}' aborts the compiler: 'invalid for range' (rewrite.go:rewriteForRange)
# usage: run.sh TREE   -- exit 1 when the defect is present, 0 when absent
D=$(cd "$(dirname "$0")" && pwd)

exec "$D/../runcase.sh" "${1:?tree}" "$D"
