#!/bin/bash
# usage: runcase.sh TREE CASEDIR   (CASEDIR contains *.go of package main)
# exit: 0 = compiled, built, ran with exit 0 ; 1 = otherwise
export GOFLAGS=-mod=mod GOPROXY=off GOSUMDB=off GOTOOLCHAIN=local
TREE=$(cd "$1" && pwd); CASE=$(cd "$2" && pwd)
GOVER=${GOVER:-1.22}
W=$(mktemp -d /tmp/hunt/B/HUNT/_tmp.XXXXXX)
trap 'rm -rf "$W"' EXIT
mkdir -p $W/driver $W/src $W/out
cat > $W/driver/main.go <<'EOG'
package main

import (
	"os"

	"github.com/goghcrow/go-co/rewriter"
)

func main() { rewriter.Compile(os.Args[1], os.Args[2]) }
EOG
mkmod() { # dir name
cat > $1/go.mod <<EOG
module $2

go $GOVER

require github.com/goghcrow/go-co v0.0.0
replace github.com/goghcrow/go-co => $TREE
EOG
cp $TREE/go.sum $1/go.sum
}
mkmod $W/driver driver; mkmod $W/src t; mkmod $W/out t
cp $CASE/*.go $W/src/
(cd $W/driver && go build -o $W/cogen . ) || { echo "DRIVER BUILD FAILED"; exit 2; }
(cd $W/src && $W/cogen $W/src $W/out) > $W/compile.log 2>&1 || { echo "COMPILER FAILED:"; grep -v '^\[' $W/compile.log | head -${LINES_MAX:-15}; exit 1; }
if [ -n "$SHOW" ]; then cat $W/out/*.go; fi
(cd $W/out && go build -o $W/prog . ) 2>&1 | head -20
[ -x $W/prog ] || { echo "OUTPUT DOES NOT BUILD"; exit 1; }
timeout 20 $W/prog; rc=$?
[ $rc -eq 0 ] || { echo "PROGRAM EXIT $rc"; exit 1; }
exit 0
