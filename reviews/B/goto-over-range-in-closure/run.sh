#!/bin/bash
# DEFECT: C04 - goto over a range loop in a plain closure nested in a generator -> 'goto jumps over declaration of it1', output does not build (range.go:rewriteRanges InsertBefore)
# usage: run.sh TREE   -- exit 1 when the defect is present, 0 when absent
D=$(cd "$(dirname "$0")" && pwd)

exec "$D/../runcase.sh" "${1:?tree}" "$D"
