package main

import (
	"fmt"
	"os"

	co "github.com/goghcrow/go-co"
)

func gen(xs []int, skip bool) co.Iter[int] {
	sum := func() (s int) {
		if skip {
			goto end
		}
		for _, x := range xs {
			s += x
		}
	end:
		s++
		return
	}
	co.Yield(sum())
	return nil
}

func main() {
	var got []int
	for v := range gen([]int{1, 2}, false) {
		got = append(got, v)
	}
	fmt.Println(got)
	if fmt.Sprint(got) != "[4]" {
		os.Exit(1)
	}
}
