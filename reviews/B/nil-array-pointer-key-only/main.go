package main

import (
	"fmt"
	"os"

	co "github.com/goghcrow/go-co"
)

func gen(p *[3]int) co.Iter[int] {
	for i := range *p {
		co.Yield(i)
	}
	return nil
}

func main() {
	var got []int
	for v := range gen(nil) {
		got = append(got, v)
	}
	fmt.Println(got)
	if fmt.Sprint(got) != "[0 1 2]" {
		os.Exit(1)
	}
}
