#!/bin/bash
# DEFECT: C04 - 'for i := range *p' with nil p: Go does not evaluate the operand, generated (*p)[:] panics (range.go:rewriteRanges array case)
# usage: run.sh TREE   -- exit 1 when the defect is present, 0 when absent
D=$(cd "$(dirname "$0")" && pwd)

exec "$D/../runcase.sh" "${1:?tree}" "$D"
