package main

import (
	"fmt"
	"maps"
	"os"
	"slices"

	co "github.com/goghcrow/go-co"
)

func gen(m map[string]int) co.Iter[string] {
	var keys []string
	for k := range maps.Keys(m) {
		keys = append(keys, k)
	}
	slices.Sort(keys)
	for _, k := range keys {
		co.Yield(k)
	}
	return nil
}

func main() {
	var got []string
	for v := range gen(map[string]int{"b": 1, "a": 2}) {
		got = append(got, v)
	}
	fmt.Println(got)
	if fmt.Sprint(got) != "[a b]" {
		os.Exit(1)
	}
}
