#!/bin/bash
# DEFECT: C04 - non-yielding range-over-func loop (go 1.23) inside a generator -> compiler panic 'implement me: range func' (range.go:rewriteRanges case *types.Signature)
# usage: run.sh TREE   -- exit 1 when the defect is present, 0 when absent
D=$(cd "$(dirname "$0")" && pwd)
export GOVER=1.23
exec "$D/../runcase.sh" "${1:?tree}" "$D"
