#!/bin/bash
# DEFECT: C04 - labelled range in a plain closure nested in a generator -> compiler panic 'InsertBefore node not contained in slice' (range.go:rewriteRanges)
# usage: run.sh TREE   -- exit 1 when the defect is present, 0 when absent
D=$(cd "$(dirname "$0")" && pwd)

exec "$D/../runcase.sh" "${1:?tree}" "$D"
