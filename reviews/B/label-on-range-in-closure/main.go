package main

import (
	"fmt"
	"os"

	co "github.com/goghcrow/go-co"
)

func gen(m [][]int) co.Iter[int] {
	find := func() int {
	outer:
		for i, row := range m {
			for _, x := range row {
				if x == 0 {
					continue outer
				}
			}
			return i
		}
		return -1
	}
	co.Yield(find())
	return nil
}

func main() {
	var got []int
	for v := range gen([][]int{{0, 1}, {1, 2}}) {
		got = append(got, v)
	}
	fmt.Println(got)
	if fmt.Sprint(got) != "[1]" {
		os.Exit(1)
	}
}
