package main

import (
	"fmt"
	"os"

	co "github.com/goghcrow/go-co"
	"github.com/goghcrow/go-co/seq"
)

var _ seq.Iterator[int]

func gen() co.Iter[int] {
	seq := []int{1, 2, 3}
	for _, x := range seq {
		co.Yield(x)
	}
	return nil
}

func main() {
	var got []int
	for v := range gen() {
		got = append(got, v)
	}
	fmt.Println(got)
	if fmt.Sprint(got) != "[1 2 3]" {
		os.Exit(1)
	}
}
