#!/bin/bash
# DEFECT: build - local variable named seq in a file importing seq under its default name captures all generated seq.X references (rewrite.go:rewriteFile parseOrImport)
# usage: run.sh TREE   -- exit 1 when the defect is present, 0 when absent
D=$(cd "$(dirname "$0")" && pwd)

exec "$D/../runcase.sh" "${1:?tree}" "$D"
