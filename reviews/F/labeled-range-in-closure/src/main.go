package main

import (
	"fmt"

	co "github.com/goghcrow/go-co"
)

func g(rows [][]int) co.Iter[int] {
	firstNeg := func() int {
		r := -1
	outer:
		for i, row := range rows {
			for _, x := range row {
				if x < 0 {
					r = i
					break outer
				}
			}
		}
		return r
	}
	co.Yield(firstNeg())
	return nil
}

func drain[T any](it co.Iter[T]) (xs []T) {
	for v := range it {
		xs = append(xs, v)
	}
	return
}

func main() {
	fmt.Println(drain(g([][]int{{1, 2}, {3, -4}, {5}})))
}
