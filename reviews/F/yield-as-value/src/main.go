package main

import (
	"fmt"

	co "github.com/goghcrow/go-co"
)

func each(xs []int, f func(int)) {
	for _, x := range xs {
		f(x)
	}
}

func g() co.Iter[int] {
	co.Yield(0)
	each([]int{1, 2, 3}, co.Yield[int])
	return nil
}

func drain[T any](it co.Iter[T]) (xs []T) {
	for v := range it {
		xs = append(xs, v)
	}
	return
}

func main() {
	fmt.Println(drain(g()))
}
