#!/bin/bash
# usage: run.sh <tree>; exit 1 when the defect is present
here=$(cd "$(dirname "$0")" && pwd); . "$here/../lib/common.sh"
work=$(mktemp -d)
compile_case "${1:-/tmp/hunt/F}" "$here" "$work"; rc=$?
[ $rc = 3 ] && exit 3
if [ $rc != 0 ]; then
  echo "ok: compiler rejects the construct:"; grep -m1 "^panic" "$work/compile.log"; exit 0
fi
out=$(cd "$work/out" && go run . 2>&1)
echo "$out"
[ "$out" = "[0 1 2 3]" ] && { echo "ok"; exit 0; }
echo "DEFECT: compiled silently, expected [0 1 2 3] (or a diagnostic), values passed to the Yield function value are dropped"; exit 1
