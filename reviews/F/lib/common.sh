#!/bin/bash
# common helpers: compile_case <tree> <casedir(with src/*.go, package main)> <workdir>
# compiles src with rewriter.Compile of the given tree into <workdir>/out and makes it runnable.
export GOFLAGS=-mod=mod GOPROXY=off GOSUMDB=off GOTOOLCHAIN=local
compile_case() {
  local tree=$(cd "$1" && pwd) case=$(cd "$2" && pwd) work=$3
  rm -rf "$work"; mkdir -p "$work/driver" "$work/src" "$work/out"
  cat > "$work/driver/go.mod" <<EOM
module driver

go 1.19

require github.com/goghcrow/go-co v0.0.0

replace github.com/goghcrow/go-co => $tree
EOM
  cp "$tree/go.sum" "$work/driver/go.sum"
  cat > "$work/driver/main.go" <<'EOM'
package main

import (
	"os"

	"github.com/goghcrow/go-co/rewriter"
)

func main() { rewriter.Compile(os.Args[1], os.Args[2]) }
EOM
  (cd "$work/driver" && go build -o driver . ) || { echo "cannot build driver"; return 3; }
  cp "$case"/src/*.go "$work/src/"
  cat > "$work/src/go.mod" <<EOM
module t

go 1.22

require github.com/goghcrow/go-co v0.0.0

replace github.com/goghcrow/go-co => $tree
EOM
  cp "$tree/go.sum" "$work/src/go.sum"
  # the optimizer stage loads the intermediate dir inside <out>, which must be inside a module
  [ -n "$NO_OUT_GOMOD" ] || cp "$work/src/go.mod" "$work/src/go.sum" "$work/out/"
  (cd "$work/src" && "$work/driver/driver" . "$work/out") > "$work/compile.log" 2>&1
  local rc=$?
  cp "$work/src/go.mod" "$work/src/go.sum" "$work/out/"
  for f in "$work"/src/*.go; do b=$(basename "$f"); [ -f "$work/out/$b" ] || cp "$f" "$work/out/$b"; done
  return $rc
}
