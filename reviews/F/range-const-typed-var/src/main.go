package main

import (
	"fmt"

	co "github.com/goghcrow/go-co"
)

func g() co.Iter[int64] {
	var i int64
	for i = range 3 {
		co.Yield(i)
	}
	co.Yield(i)
	return nil
}

func main() {
	for v := range g() {
		fmt.Println(v)
	}
}
