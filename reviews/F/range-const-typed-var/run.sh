#!/bin/bash
# usage: run.sh <tree>; exit 1 when the defect is present
here=$(cd "$(dirname "$0")" && pwd); . "$here/../lib/common.sh"
work=$(mktemp -d)
compile_case "${1:-/tmp/hunt/F}" "$here" "$work"; rc=$?
[ $rc = 3 ] && exit 3
if [ $rc != 0 ]; then echo "DEFECT: compiler failed"; grep -m1 "^panic" "$work/compile.log"; exit 1; fi
out=$(cd "$work/out" && go run . 2>&1); echo "$out"
[ "$out" = $'0\n1\n2\n2' ] && { echo ok; exit 0; }
echo "DEFECT: expected 0 1 2 2 (the source builds and prints that with a coroutine Yield)"; exit 1
