package main

import (
	"fmt"

	co "github.com/goghcrow/go-co"
)

func g() co.Iter[int] {
	co.Yield(1)
	co.Yield(2)
	return nil
}

func main() {
	for v := range g() {
		fmt.Println(v)
	}
}
