#!/bin/bash
# usage: run.sh <tree>; exit 1 when the defect is present
# Compile(srcDir, dstDir) with a dstDir that is not inside a Go module (e.g. a fresh /tmp/xxx/out)
here=$(cd "$(dirname "$0")" && pwd); . "$here/../lib/common.sh"
work=$(mktemp -d)   # /tmp/tmp.XXXX: no go.mod in any parent directory
rm -rf "$work/out"
NO_OUT_GOMOD=1 compile_case "${1:-/tmp/hunt/F}" "$here" "$work.w"; rc=$?
work="$work.w"
[ $rc = 3 ] && exit 3
echo "Compile exit code: $rc"
grep "optimize" "$work/compile.log"
# compile_case copies missing files from src afterwards, so compare with the source
if [ $rc = 0 ] && cmp -s "$work/out/main.go" "$work/src/main.go"; then
  echo "DEFECT: Compile returned normally but wrote no main.go into the target directory"; exit 1
fi
if [ $rc != 0 ]; then echo "ok: Compile reports an error"; exit 0; fi
out=$(cd "$work/out" && go run . 2>&1); echo "$out"
[ "$out" = $'1\n2' ] && { echo ok; exit 0; }
exit 1
