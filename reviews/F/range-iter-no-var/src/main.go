package main

import (
	"fmt"

	co "github.com/goghcrow/go-co"
)

func g() co.Iter[int] {
	co.Yield(1)
	co.Yield(2)
	return nil
}

func count(it co.Iter[int]) (n int) {
	for range it {
		n++
	}
	return
}

func main() {
	fmt.Println(count(g()))
}
