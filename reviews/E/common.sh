# sourced by the run.sh scripts: builds cogen from the tree under test and prepares a scratch module
# in:  $1 = tree, $HERE = dir of run.sh (with src/)   out: $W (scratch), $W/cogen, $W/m (module example.com/m)
set -u
TREE=$(cd "$1" && pwd)
export GOFLAGS=-mod=mod GOPROXY=off GOSUMDB=off GOTOOLCHAIN=local
W=$(mktemp -d)
trap 'rm -rf "$W"' EXIT
(cd "$TREE" && go build -o "$W/cogen" ./cmd/cogen) || { echo "cannot build cogen"; exit 2; }
mkdir -p "$W/m"
cp -r "$HERE/src/." "$W/m/"
cat > "$W/m/go.mod" <<EOM
module example.com/m

go 1.21

require github.com/goghcrow/go-co v0.0.0

replace github.com/goghcrow/go-co => $TREE
EOM
cp "$TREE/go.sum" "$W/m/go.sum"
# build an optional driver (src/drv/main.go) inside the scratch module
if [ -f "$W/m/drv/main.go" ]; then
  (cd "$W/m" && go build -o "$W/drv" ./drv) || { echo "cannot build driver"; exit 2; }
fi
cogen() { ( cd "$1" && GOFILE=${2:-x_co.go} GOPACKAGE=p "$W/cogen" ) >"$W/cogen.log" 2>&1; }
