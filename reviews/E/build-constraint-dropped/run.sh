#!/bin/sh
# two co files with complementary extra constraints (co && windows / co && !windows) declaring the same generator
HERE=$(cd "$(dirname "$0")" && pwd)
. "$HERE/../common.sh"
cd "$W/m/p" || exit 2
for os in linux windows; do
  GOOS=$os go vet -tags co . >"$W/vet.$os" 2>&1 || { echo "input does not type-check for $os"; cat "$W/vet.$os"; exit 2; }
  ( GOOS=$os GOFILE=gen_other_impl_co.go "$W/cogen" ) >"$W/log.$os" 2>&1 || { echo "cogen failed for GOOS=$os"; tail -3 "$W/log.$os"; exit 1; }
done
grep -H '^//go:build' gen_windows_impl.go gen_other_impl.go
bad=0
for os in linux windows; do
  GOOS=$os go build . >"$W/b.$os" 2>&1 || { echo "DEFECT: GOOS=$os go build (no co tag) fails:"; head -3 "$W/b.$os"; bad=1; }
done
[ $bad -eq 0 ] && echo ok
exit $bad
