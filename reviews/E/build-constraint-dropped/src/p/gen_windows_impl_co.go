//go:build co && windows

//go:generate cogen

package p

import (
	. "github.com/goghcrow/go-co"
)

func Count(n int) Iter[int] {
	for i := 0; i < n; i++ {
		Yield(i)
	}
	return nil
}
