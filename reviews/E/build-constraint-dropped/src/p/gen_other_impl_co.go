//go:build co && !windows

package p

import (
	. "github.com/goghcrow/go-co"
)

func Count(n int) Iter[int] {
	for i := n; i > 0; i-- {
		Yield(i)
	}
	return nil
}
