package main

import (
	"os"

	"github.com/goghcrow/go-co/rewriter"
)

// usage: gogen dir
func main() {
	rewriter.GoGen(os.Args[1])
}
