#!/bin/sh
# rewriter.GoGen("./p") (relative dir) must give the same result as GoGen(<absolute dir>) / cogen run inside p
HERE=$(cd "$(dirname "$0")" && pwd)
. "$HERE/../common.sh"
cd "$W/m" || exit 2
"$W/drv" "$W/m/p" >"$W/labs" 2>&1 || { echo "GoGen(abs) failed"; exit 2; }
mv p/gen.go "$W/gen.abs.go"
"$W/drv" ./p >"$W/lrel" 2>&1; rc=$?
if [ $rc -ne 0 ]; then echo "GoGen(./p) failed loudly (acceptable)"; exit 0; fi
if cmp -s p/gen.go "$W/gen.abs.go" && go build ./p; then echo ok; exit 0; fi
echo "DEFECT: GoGen(\"./p\") exit 0 but left a different p/gen.go (the unoptimised intermediate file):"
diff "$W/gen.abs.go" p/gen.go | head -8
go build ./p 2>&1 | head -3
exit 1
