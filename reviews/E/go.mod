module hunt

go 1.21
