//go:build co

package p_test

import (
	"testing"

	. "github.com/goghcrow/go-co"

	"example.com/m/p"
)

func twice(n int) Iter[p.Item] {
	for it := range p.Items(n) {
		Yield(it)
		Yield(it)
	}
	return nil
}

func TestTwice(t *testing.T) {
	c := 0
	for v := range twice(3) {
		_ = v
		c++
	}
	if c != 6 {
		t.Fatal(c)
	}
}
