package p

type Other struct{}
