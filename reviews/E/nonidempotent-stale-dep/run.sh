#!/bin/sh
# cogen twice on the same package (gen_co.go, plain types.go, external-test gen_co_test.go): second run must be a no-op
HERE=$(cd "$(dirname "$0")" && pwd)
. "$HERE/../common.sh"
cogen "$W/m/p" gen_co.go || { echo "first run failed"; tail -3 "$W/cogen.log"; exit 1; }
mkdir "$W/snap1" && cp "$W/m/p/"*.go "$W/snap1/"
cogen "$W/m/p" gen_co.go || { echo "second run failed"; exit 1; }
bad=0
for f in "$W/m/p/"*.go; do
  cmp -s "$f" "$W/snap1/$(basename "$f")" || { echo "DEFECT: $(basename "$f") changed on the second run"; diff "$W/snap1/$(basename "$f")" "$f" | head -12; bad=1; }
done
[ $bad -eq 0 ] && echo "ok: idempotent"
exit $bad
