#!/bin/sh
# rewriter.Compile(src, dst) must write the generated files (or fail loudly) wherever dst is and whatever tag is used
HERE=$(cd "$(dirname "$0")" && pwd)
. "$HERE/../common.sh"
cd "$W/m" || exit 2
bad=0
# control: dst inside the module, no tag -> b.go is written
"$W/drv" in out0 >"$W/l0" 2>&1; [ -f out0/b.go ] || { echo "control failed"; tail -3 "$W/l0"; exit 2; }
# (a) dst outside any module
"$W/drv" in "$W/outside" >"$W/la" 2>&1; rca=$?
if [ $rca -eq 0 ] && [ ! -f "$W/outside/b.go" ]; then echo "DEFECT (a): Compile(in, <dir outside the module>) exit 0, wrote: [$(ls "$W/outside")]"; bad=1; fi
# (b) sources tagged co, loader.WithBuildTag(\"co\")
"$W/drv" in out1 tag=co >"$W/lb" 2>&1; rcb=$?
if [ $rcb -eq 0 ] && [ ! -f out1/a.go ]; then echo "DEFECT (b): Compile(in, out1, WithBuildTag(co)) exit 0, wrote: [$(ls out1)]"; bad=1; fi
[ $bad -eq 0 ] && echo ok
exit $bad
