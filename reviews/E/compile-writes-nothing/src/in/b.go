package in

import (
	. "github.com/goghcrow/go-co"
)

func Count2(n int) Iter[int] {
	for i := 0; i < n; i++ {
		Yield(i)
	}
	return nil
}
