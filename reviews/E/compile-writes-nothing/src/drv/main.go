package main

import (
	"os"

	"github.com/goghcrow/go-co/rewriter"
	"github.com/goghcrow/go-loader"
)

// usage: drv src dst [test] [tag=co]
func main() {
	var opts []loader.Option
	for _, a := range os.Args[3:] {
		switch {
		case a == "test":
			opts = append(opts, loader.WithLoadTest())
		case len(a) > 4 && a[:4] == "tag=":
			opts = append(opts, loader.WithBuildTag(a[4:]))
		}
	}
	rewriter.Compile(os.Args[1], os.Args[2], opts...)
}
