#!/bin/sh
# co file uses "time" only in a type assertion on a value whose type comes from a plain sibling file
HERE=$(cd "$(dirname "$0")" && pwd)
. "$HERE/../common.sh"
cogen "$W/m/p" gen_co.go || { echo "cogen failed"; tail -3 "$W/cogen.log"; exit 1; }
cd "$W/m" || exit 2
if ! go vet -tags co ./p >"$W/vet.log" 2>&1; then echo "input does not type-check with -tags co"; cat "$W/vet.log"; exit 2; fi
if go test ./p >"$W/test.log" 2>&1; then echo "ok: generated package builds and its test passes"; exit 0; fi
echo "DEFECT: generated package does not build without the co tag:"; head -5 "$W/test.log"
grep -n '"time"' p/gen.go || echo "(gen.go has no import of \"time\")"
exit 1
