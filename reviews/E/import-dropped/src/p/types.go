package p

type Box struct{ V any }
