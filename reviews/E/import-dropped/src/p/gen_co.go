//go:build co

//go:generate cogen

package p

import (
	"time"

	. "github.com/goghcrow/go-co"
)

// Box is declared in the plain sibling file types.go
func Durations(bs []Box) Iter[int64] {
	for _, b := range bs {
		d := b.V.(time.Duration)
		Yield(int64(d))
	}
	return nil
}
