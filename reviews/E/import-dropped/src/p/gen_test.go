package p

import (
	"testing"
	"time"
)

func TestDurations(t *testing.T) {
	var got []int64
	for it := Durations([]Box{{time.Duration(3)}, {time.Duration(5)}}); it.MoveNext(); {
		got = append(got, it.Current())
	}
	if len(got) != 2 || got[0] != 3 || got[1] != 5 {
		t.Fatal(got)
	}
}
