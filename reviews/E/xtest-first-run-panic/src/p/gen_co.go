//go:build co

//go:generate cogen

package p

import (
	. "github.com/goghcrow/go-co"
)

type Item struct{ N int }

func Items(n int) Iter[Item] {
	for i := 0; i < n; i++ {
		Yield(Item{i})
	}
	return nil
}
