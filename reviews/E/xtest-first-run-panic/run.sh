#!/bin/sh
# cogen on a fresh package whose only sources are gen_co.go + an external-test gen_co_test.go (package p_test)
HERE=$(cd "$(dirname "$0")" && pwd)
. "$HERE/../common.sh"
cogen "$W/m/p" gen_co.go; rc=$?
if [ $rc -ne 0 ] || [ ! -f "$W/m/p/gen_test.go" ]; then
  echo "DEFECT: first cogen run rc=$rc, files: $(ls "$W/m/p" | tr '\n' ' ')"
  grep -m1 '^panic' "$W/cogen.log"
  exit 1
fi
echo "ok: first run wrote gen.go and gen_test.go"
exit 0
