#!/bin/bash
# package with a generator file, an internal test and an EXTERNAL test (package pkg_test) that use generators.
# exit 1 when the first cogen run on a fresh tree (no generated files yet) crashes
. "$(dirname "$0")/../lib.sh"
setup "${1:?tree}" "$(dirname "$0")"
go vet -tags co ./case/pkg || exit 2
log=$(./tool gogen "$WORK/case/pkg" 2>&1); rc=$?
ls case/pkg
if [ $rc -ne 0 ] || [ ! -f case/pkg/b_test.go ]; then
	echo "DEFECT: first cogen run failed (rc=$rc), b_test.go not generated:"; echo "$log" | grep -m1 'panic'
	echo "$log" | grep -m1 -A1 'markUses'
	log2=$(./tool gogen "$WORK/case/pkg" 2>&1) && [ -f case/pkg/b_test.go ] && echo "(a second run, with a.go now present, succeeds)"
	exit 1
fi
go test ./case/pkg || { echo "DEFECT: generated tests fail"; exit 1; }
echo OK; exit 0
