//go:build co

package pkg_test

import (
	"testing"

	. "github.com/goghcrow/go-co"
	"hunt/case/pkg"
)

func wrap() Iter[string] {
	Yield("y")
	YieldFrom(pkg.Gen())
	return nil
}

func TestExternal(t *testing.T) {
	got := pkg.Collect(wrap())
	if len(got) != 3 || got[0] != "y" || got[1] != "A" {
		t.Fatal(got)
	}
}
