//go:build co

package pkg

import (
	"testing"

	. "github.com/goghcrow/go-co"
)

func numbers() Iter[string] {
	Yield("x")
	YieldFrom(Gen())
	return nil
}

func TestInternal(t *testing.T) {
	got := Collect(numbers())
	if len(got) != 3 || got[0] != "x" || got[2] != "B" {
		t.Fatal(got)
	}
}
