//go:build co

package pkg

import (
	"strings"

	. "github.com/goghcrow/go-co"
)

func Gen() Iter[string] {
	for _, s := range []string{"a", "b"} {
		Yield(strings.ToUpper(s))
	}
	return nil
}

func Collect(it Iter[string]) (xs []string) {
	for s := range it {
		xs = append(xs, s)
	}
	return
}
