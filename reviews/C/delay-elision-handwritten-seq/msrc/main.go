package main

import (
	"fmt"
	p "hunt/case/src"
)

func main() { fmt.Println(p.Run()) }
