package src

import (
	. "github.com/goghcrow/go-co"
	"github.com/goghcrow/go-co/seq"
)

var Log []string

func Gen() Iter[int] {
	Yield(1)
	return nil
}

func tail(n int) seq.Seq[int] {
	Log = append(Log, "tail built")
	return seq.Bind(n, seq.Return[int])
}

// hand-written lazy sequence: nothing may be evaluated before the first MoveNext
func Manual() seq.Iterator[int] {
	return seq.Start(seq.Delay(func() seq.Seq[int] {
		return seq.Combine(tail(2), seq.Return[int]())
	}))
}

func Run() []string {
	it := Manual()
	Log = append(Log, "iterator created")
	it.MoveNext()
	return Log
}
