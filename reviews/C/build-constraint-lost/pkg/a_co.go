//go:build co && !slow

package pkg

import (
	. "github.com/goghcrow/go-co"
)

func Gen() Iter[int] {
	Yield(1)
	return nil
}
