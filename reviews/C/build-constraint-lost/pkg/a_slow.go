//go:build slow

package pkg

import "github.com/goghcrow/go-co/seq"

func Gen() seq.Iterator[int] { return nil }
