#!/bin/bash
# a_co.go is constrained by `co && !slow`, a_slow.go (hand-written alternative) by `slow`.
# exit 1 when the generated a.go no longer carries the `!slow` part, so that `-tags slow` sees Gen twice
. "$(dirname "$0")/../lib.sh"
setup "${1:?tree}" "$(dirname "$0")"
./tool gogen "$WORK/case/pkg" >/dev/null 2>&1 || { echo "cogen failed"; exit 1; }
echo "constraint of source   : $(grep -m1 '^//go:build' case/pkg/a_co.go)"
echo "constraint of generated: $(grep -m1 '^//go:build' case/pkg/a.go)"
go vet -tags co ./case/pkg || exit 2          # source build, fine
go vet ./case/pkg || exit 2                   # generated build, fine
if out=$(go vet -tags slow ./case/pkg 2>&1); then
	echo "OK"; exit 0
fi
echo "DEFECT: build with -tags slow is broken by the generated file:"; echo "$out"
exit 1
