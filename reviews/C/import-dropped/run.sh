#!/bin/bash
# exit 1 when the generated file lost imports it still needs
. "$(dirname "$0")/../lib.sh"
setup "${1:?tree}" "$(dirname "$0")"
./tool compile case/src case/out >/dev/null 2>&1 || { echo "compiler failed"; exit 1; }
cp case/src/types.go case/out/types.go # the unprocessed sibling file of the package
if ! go build ./case/src; then echo "source package itself does not build"; exit 2; fi
if out=$(go build ./case/out 2>&1); then
	echo "OK: generated package builds"; exit 0
fi
echo "DEFECT: generated package does not build:"; echo "$out"
grep -n -A4 '^import' case/out/gen.go
exit 1
