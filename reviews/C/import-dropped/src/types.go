package src

// a sibling file of the package that is not processed (no generator, no co import)

type Box struct{ V any }

type Table map[int]string

func Load() any { return nil }
