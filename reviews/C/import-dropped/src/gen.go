package src

import (
	"fmt"
	"net/http"

	. "github.com/goghcrow/go-co"
)

// the only use of fmt: the type of a type assertion whose operand has a type declared in types.go
func Name(b Box) string {
	return b.V.(fmt.Stringer).String()
}

// the only use of net/http: keys of a composite literal whose type is declared in types.go
var StatusNames = Table{
	http.StatusOK:       "ok",
	http.StatusNotFound: "not found",
}

func Gen() Iter[int] {
	Yield(1)
	Yield(2)
	return nil
}
