package src

import (
	"runtime"
	"strings"

	. "github.com/goghcrow/go-co"
)

func Gen() Iter[int] {
	Yield(1)
	return nil
}

// caller reports the name of the function that called it (as logging / test helpers do)
func caller() string {
	pc, _, _, _ := runtime.Caller(1)
	name := runtime.FuncForPC(pc).Name()
	return name[strings.LastIndex(name, ".")+1:]
}

func run(f func() string) string { return f() }

func Run() string {
	// the closure is the caller of caller(); after eta reduction it is run()
	return run(func() string { return caller() })
}
