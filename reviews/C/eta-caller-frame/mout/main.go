package main

import (
	"fmt"
	p "hunt/case/out"
)

func main() { fmt.Println(p.Run()) }
