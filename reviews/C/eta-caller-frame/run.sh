#!/bin/bash
# Run() contains no generator: the source package (co stubs) and the generated package must print the same.
. "$(dirname "$0")/../lib.sh"
setup "${1:?tree}" "$(dirname "$0")"
./tool compile case/src case/out >/dev/null 2>&1 || { echo "compiler failed"; exit 1; }
src=$(go run ./case/msrc) || exit 2
gen=$(go run ./case/mout) || exit 2
echo "source   : $src"
echo "generated: $gen"
[ "$src" = "$gen" ] && { echo OK; exit 0; }
echo "DEFECT: behaviour of non-generator code changed"; exit 1
