# shared helper for the run.sh scripts: source it, then call `setup <tree> <casedir>`
# afterwards: $WORK is a scratch Go module `hunt` (replace go-co => <tree>), the case files are copied
# to $WORK/case, and $WORK/tool is a binary:  tool compile <src> <dst>  |  tool gogen <dir>
export GOFLAGS=-mod=mod GOPROXY=off GOSUMDB=off GOTOOLCHAIN=local
setup() {
	TREE=$(cd "$1" && pwd)
	CASE=$(cd "$2" && pwd)
	WORK=$(mktemp -d /tmp/hunt-C-XXXXXX)
	mkdir -p "$WORK/cmd" "$WORK/case"
	cat > "$WORK/go.mod" <<MOD
module hunt

go 1.22

require github.com/goghcrow/go-co v0.0.0

replace github.com/goghcrow/go-co => $TREE
MOD
	cp "$TREE/go.sum" "$WORK/go.sum"
	cat > "$WORK/cmd/main.go" <<'GO'
package main

import (
	"os"

	"github.com/goghcrow/go-co/rewriter"
)

func main() {
	switch os.Args[1] {
	case "compile":
		rewriter.Compile(os.Args[2], os.Args[3])
	case "gogen":
		rewriter.GoGen(os.Args[2])
	}
}
GO
	for d in "$CASE"/*/; do cp -r "$d" "$WORK/case/"; done
	(cd "$WORK" && go build -o "$WORK/tool" ./cmd) || { echo "cannot build the tool"; exit 2; }
	cd "$WORK"
}
