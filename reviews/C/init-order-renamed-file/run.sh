#!/bin/bash
# reg_co.go (generator file) and reg_aux.go (plain file) both have an init func and a package-level var with an effect.
# source build (-tags co) compiles reg_aux.go before reg_co.go; cogen writes reg.go, which sorts BEFORE reg_aux.go.
# exit 1 when the initialisation order of the generated build differs from the source build
. "$(dirname "$0")/../lib.sh"
setup "${1:?tree}" "$(dirname "$0")"
./tool gogen "$WORK/case/pkg" >/dev/null 2>&1 || { echo "cogen failed"; exit 1; }
src=$(go run -tags co ./case/main) || exit 2
gen=$(go run ./case/main) || exit 2
echo "source   : $src"
echo "generated: $gen"
[ "$src" = "$gen" ] && { echo OK; exit 0; }
echo "DEFECT: initialisation order changed"; exit 1
