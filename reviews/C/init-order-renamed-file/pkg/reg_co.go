//go:build co

package pkg

import (
	. "github.com/goghcrow/go-co"
)

func init() { Register("reg_co.go") }

var fromCo = Note("var in reg_co.go")

func Gen() Iter[int] {
	Yield(1)
	return nil
}
