package pkg

var Order []string

func Register(s string) { Order = append(Order, s) }
func Note(s string) int  { Order = append(Order, s); return 0 }

func init() { Register("reg_aux.go") }

var fromAux = Note("var in reg_aux.go")
