package main

import (
	"fmt"
	"hunt/case/pkg"
)

func main() { fmt.Println(pkg.Order) }
