#!/bin/bash
# a plain (non-yielding) closure inside a generator contains a labelled range loop.
# exit 1 when the compiler crashes / produces nothing instead of leaving the closure alone
. "$(dirname "$0")/../lib.sh"
setup "${1:?tree}" "$(dirname "$0")"
go vet ./case/src || exit 2
log=$(./tool compile case/src case/out 2>&1); rc=$?
if [ $rc -ne 0 ] || [ ! -f case/out/gen.go ]; then
	echo "DEFECT: compiler failed (rc=$rc):"; echo "$log" | grep -m3 -i 'panic'
	exit 1
fi
go vet ./case/out || { echo "DEFECT: output does not build"; exit 1; }
echo OK; exit 0
