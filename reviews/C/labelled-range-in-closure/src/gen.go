package src

import (
	. "github.com/goghcrow/go-co"
)

func Gen(grid [][]int) Iter[int] {
	find := func(want int) int {
	outer:
		for i, row := range grid {
			for _, v := range row {
				if v == want {
					return i
				}
				if v < 0 {
					continue outer
				}
			}
		}
		return -1
	}
	Yield(find(3))
	Yield(find(9))
	return nil
}
