#!/bin/bash
# usage: run.sh <tree>; exit 1 when the defect is present
# the program calling rewriter.Compile lives in a module declaring go 1.23, so GODEBUG gotypesalias=1
# (the default since go 1.23) and go/types reports *types.Alias nodes. Needs a go >= 1.23 toolchain.
here=$(cd "$(dirname "$0")" && pwd); tree=$(cd "${1:-$here/../..}" && pwd)
source "$here/../_lib/harness.sh"
w=$(mktemp -d); trap 'rm -rf "$w"' EXIT
setup_mod "$tree" "$w/m" 1.23; cd "$w/m"; cp "$here"/src/*.go src/
go build -o tool/tool ./tool || exit 2
go vet ./src || exit 2
if ! ./tool/tool compile src out >gen.log 2>&1; then
  echo "DEFECT: compiler panicked:"; grep -v '^\[' gen.log | head -6; exit 1
fi
if ! go build -o /dev/null ./out 2>build.log; then
  echo "DEFECT: generated package does not build:"; cat build.log; exit 1
fi
got=$(go run ./out 2>&1 | tr '\n' ' '); echo "output: $got"
[ "$got" = "1 2 3 " ] && { echo OK; exit 0; }
echo "DEFECT: expected 1 2 3"; exit 1
