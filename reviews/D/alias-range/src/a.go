package main

import (
	"fmt"

	"github.com/goghcrow/go-co"
)

type IntIter = co.Iter[int]

type Source interface {
	Items() IntIter
}

type src struct{}

func (src) Items() IntIter { return g() }

func g() co.Iter[int] {
	co.Yield(1)
	co.Yield(2)
	return nil
}

func sum(it IntIter) (s int) {
	for v := range it {
		s += v
	}
	return
}

func main() {
	var s Source = src{}
	for v := range s.Items() {
		fmt.Println(v)
	}
	fmt.Println(sum(g()))
}
