//go:build co

//go:generate cogen
package main

import (
	"fmt"
	"time"

	. "github.com/goghcrow/go-co"
)

func Timeouts() Iter[Pair[string, time.Duration]] {
	Yield(Pair[string, time.Duration]{Key: "connect", Val: 3})
	Yield(Pair[string, time.Duration]{Key: "read", Val: 5})
	return nil
}

func main() {
	for p := range Timeouts() {
		fmt.Println(p.Key, p.Val)
	}
}
