package main

type Pair[K comparable, V any] struct {
	Key K
	Val V
}
