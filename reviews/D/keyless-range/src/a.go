package main

import (
	"fmt"

	. "github.com/goghcrow/go-co"
)

func g() Iter[int] {
	Yield(1)
	Yield(2)
	return nil
}

func count(it Iter[int]) (n int) {
	for range it {
		n++
	}
	return
}

func main() {
	fmt.Println(count(g()))
}
