#!/bin/bash
# usage: run.sh <tree>; exit 1 when the defect is present
here=$(cd "$(dirname "$0")" && pwd); tree=$(cd "${1:-$here/../..}" && pwd)
source "$here/../_lib/harness.sh"
w=$(mktemp -d); trap 'rm -rf "$w"' EXIT
setup_mod "$tree" "$w/m"; cd "$w/m"; cp "$here"/src/*.go src/
go build -o tool/tool ./tool || exit 2
go vet ./src || exit 2
if ! ./tool/tool compile src out >gen.log 2>&1; then
  echo "DEFECT: compiler panicked:"; grep -v '^\[' gen.log | head -6; exit 1
fi
got=$(go run ./out 2>&1); echo "output: $got"
[ "$got" = "2" ] && { echo OK; exit 0; }
echo "DEFECT: expected 2"; exit 1
