#!/bin/bash
# usage: run.sh <tree>; exit 1 when the defect is present
here=$(cd "$(dirname "$0")" && pwd); tree=$(cd "${1:-$here/../..}" && pwd)
source "$here/../_lib/harness.sh"
w=$(mktemp -d); trap 'rm -rf "$w"' EXIT
setup_mod "$tree" "$w/m"; cd "$w/m"; rm -rf src; cp -r "$here/lib" lib
go build -o tool/tool ./tool || exit 2
go vet -tags co ./lib || exit 2
if (cd lib && ../tool/tool gogen "$PWD" >../gen.log 2>&1); then
  go test ./lib && { echo "OK"; exit 0; }
  echo "DEFECT: generated tests fail"; exit 1
fi
echo "DEFECT: compiler panicked:"; grep -v '^\[' gen.log | head -12; echo "files:"; ls lib
exit 1
