//go:build co

//go:generate cogen

// Package lib is documented here.
package lib

import (
	"github.com/goghcrow/go-co"
)

// Gen yields 1..n.
//
//go:noinline
func Gen(n int) co.Iter[int] {
	for i := 1; i <= n; i++ {
		co.Yield(i)
	}
	return nil
}
