//go:build co

package lib

import (
	"testing"

	"github.com/goghcrow/go-co"
)

func double(it co.Iter[int]) co.Iter[int] {
	for v := range it {
		co.Yield(v * 2)
	}
	return nil
}

func TestInternal(t *testing.T) {
	s := 0
	for v := range double(Gen(3)) {
		s += v
	}
	if s != 12 {
		t.Fatal(s)
	}
}
