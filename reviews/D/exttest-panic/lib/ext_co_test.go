//go:build co

package lib_test

import (
	"testing"

	. "github.com/goghcrow/go-co"
	"hunt/lib"
)

func TestExternal(t *testing.T) {
	inc := func(it Iter[int]) Iter[int] {
		for v := range it {
			Yield(v + 1)
		}
		return nil
	}
	s := 0
	for v := range inc(lib.Gen(3)) {
		s += v
	}
	if s != 9 {
		t.Fatal(s)
	}
}
