#!/bin/bash
# usage: run.sh <tree>; exit 1 when the defect is present
here=$(cd "$(dirname "$0")" && pwd); tree=$(cd "${1:-$here/../..}" && pwd)
source "$here/../_lib/harness.sh"
w=$(mktemp -d); trap 'rm -rf "$w"' EXIT
setup_mod "$tree" "$w/m"; cd "$w/m"; rm -rf src; cp -r "$here/app" app
go build -o tool/tool ./tool || exit 2
# the source is a valid package under the co tag
go vet -tags co ./app || exit 2
(cd app && ../tool/tool gogen "$PWD" >../gen.log 2>&1) || { echo "compiler failed"; tail -5 gen.log; exit 1; }
ls app
if go build -o /dev/null ./app 2>build.log; then echo "OK: generated package builds"; exit 0; fi
echo "DEFECT: generated package does not build without the co tag:"; cat build.log; exit 1
