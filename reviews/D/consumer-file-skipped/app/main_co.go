//go:build co

package main

import "fmt"

func main() {
	for n := range Fibonacci() {
		if n > 1000 {
			fmt.Println(n)
			break
		}
	}
}
