//go:build co

//go:generate cogen
package main

import (
	. "github.com/goghcrow/go-co"
)

func Fibonacci() Iter[int] {
	a, b := 1, 1
	for {
		Yield(b)
		a, b = b, a+b
	}
}
