#!/bin/bash
# usage: source harness.sh; setup_mod <tree> <workdir> ; compile_dir <workdir> (src -> out via rewriter.Compile)
export GOFLAGS=-mod=mod GOPROXY=off GOSUMDB=off GOTOOLCHAIN=local
setup_mod() { # $1 tree, $2 workdir (fresh), $3 go version (default 1.22)
  local tree=$1 w=$2 gov=${3:-1.22}
  rm -rf "$w"; mkdir -p "$w/tool" "$w/src"
  cat > "$w/go.mod" <<EOT
module hunt

go $gov

require github.com/goghcrow/go-co v0.0.0
replace github.com/goghcrow/go-co => $tree
EOT
  cp "$tree/go.sum" "$w/go.sum"
  # copy requires of the tree so that the tool builds offline
  sed -n '/^require (/,/^)/p' "$tree/go.mod" >> "$w/go.mod"
  echo 'require golang.org/x/mod v0.15.0 // indirect' >> "$w/go.mod"
  cat > "$w/tool/main.go" <<'EOT'
package main

import (
	"os"

	"github.com/goghcrow/go-co/rewriter"
	"github.com/goghcrow/go-loader"
)

func main() {
	mode := os.Args[1]
	switch mode {
	case "compile":
		rewriter.Compile(os.Args[2], os.Args[3], loader.WithLoadTest())
	case "gogen":
		rewriter.GoGen(os.Args[2])
	}
}
EOT
}
