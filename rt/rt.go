// Package rt is the environment every generated program talks to: choice points,
// logged effects, fuel and the injected panic. Both the go-co output (S) and the
// reference (R) are handed a fresh *Ctx per execution; what they write into Log is
// the whole observation.
package rt

import (
	"fmt"
	"strconv"
)

// Fuel is the sentinel panic raised by event F+1 on either side.
type Fuel struct{}

// Injected is the panic value raised by the event selected for panic injection.
type Injected struct{ At int }

type Ctx struct {
	Log     []string
	Ans     []int
	pos     int
	Choices []int
	Arity   []int
	events  int
	MaxEv   int
	PanicAt int // event index to panic at, -1 none
	kill    []func()
	// Tag distinguishes several contexts alive in one execution (C14); unused otherwise.
	Tag string
	// Params are driver-chosen inputs (loop bounds etc.) read through P.
	Params []int
	// Aux is scratch space for a harness (e.g. memoised Seq values of one execution).
	Aux        any
	probes     int
	ProbeAt    []int // probe call index of each sample
	ProbeDepth []int // stack depth at that sample
}

func New(ans []int, maxEv, panicAt int) *Ctx {
	return &Ctx{Ans: ans, MaxEv: maxEv, PanicAt: panicAt}
}

func (c *Ctx) ev(s string) {
	if c.events >= c.MaxEv {
		panic(Fuel{})
	}
	idx := c.events
	c.events++
	c.Log = append(c.Log, s)
	if idx == c.PanicAt {
		panic(Injected{idx})
	}
}

// Events is the number of logged events (marks excluded).
func (c *Ctx) Events() int { return c.events }

// Mark appends a consumer-side record; it is not an event (no fuel, no injection).
func (c *Ctx) Mark(s string) { c.Log = append(c.Log, s) }

func (c *Ctx) choose(arity int) int {
	v := 0
	if c.pos < len(c.Ans) {
		v = c.Ans[c.pos]
		if v < 0 || v >= arity {
			panic(fmt.Sprintf("rt: replayed answer %d out of range (arity %d) at choice %d", v, arity, c.pos))
		}
	}
	c.pos++
	c.Choices = append(c.Choices, v)
	c.Arity = append(c.Arity, arity)
	return v
}

// B is a boolean choice point (default false).
func (c *Ctx) B(id int) bool { c.ev("B" + strconv.Itoa(id)); return c.choose(2) != 0 }

// I is a ternary choice point (default 0).
func (c *Ctx) I(id int) int { c.ev("I" + strconv.Itoa(id)); return c.choose(3) }

// V wraps a yielded expression: logs its evaluation, returns id.
func (c *Ctx) V(id int) int { c.ev("V" + strconv.Itoa(id)); return id }

// E is a plain effect.
func (c *Ctx) E(id int) { c.ev("E" + strconv.Itoa(id)) }

// X is an effect carrying a value (variable reads in the VAR family etc.).
func (c *Ctx) X(id int, v any) { c.ev("X" + strconv.Itoa(id) + "=" + fmt.Sprint(v)) }

// W logs and returns an int (yielded variable reads).
func (c *Ctx) W(id int, v int) int { c.ev("W" + strconv.Itoa(id) + "=" + strconv.Itoa(v)); return v }

// Any is an interface-typed choice-free value source with an effect (type switches).
func (c *Ctx) Any(id int) any {
	c.ev("A" + strconv.Itoa(id))
	switch c.choose(3) {
	case 0:
		return 7
	case 1:
		return "s"
	}
	return nil
}

// S wraps an operand (range expression, YieldFrom argument): logs that it is evaluated.
func S[T any](c *Ctx, id int, x T) T { c.ev("S" + strconv.Itoa(id)); return x }

func (c *Ctx) OnKill(f func()) { c.kill = append(c.kill, f) }

// KillAll tears down abandoned reference coroutines at the end of an execution.
func (c *Ctx) KillAll() {
	for _, f := range c.kill {
		f()
	}
	c.kill = nil
}

// ---- parameters and stack-depth probes (C14/C17 drivers)

// P returns the i-th parameter the driver configured for this execution (0 when absent).
func (c *Ctx) P(i int) int {
	if i < len(c.Params) {
		return c.Params[i]
	}
	return 0
}

// Probe samples the call-stack depth. It is not an event. Samples are taken at probe calls
// 1..64 and at every power of two and its neighbours, so that sampling stays cheap even when the
// depth itself grows linearly.
func (c *Ctx) Probe() {
	c.probes++
	n := c.probes
	if n > 64 {
		near := false
		for _, m := range []int{n - 1, n, n + 1} {
			if m&(m-1) == 0 {
				near = true
			}
		}
		if !near {
			return
		}
	}
	c.ProbeAt = append(c.ProbeAt, n)
	c.ProbeDepth = append(c.ProbeDepth, StackDepth())
}
