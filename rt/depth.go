package rt

import "runtime"

// StackDepth is the number of frames on the calling goroutine's stack (saturating at 1<<22).
func StackDepth() int {
	buf := depthBuf
	if buf == nil {
		buf = make([]uintptr, 1<<22)
		depthBuf = buf
	}
	return runtime.Callers(0, buf)
}

var depthBuf []uintptr
