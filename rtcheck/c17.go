package rtcheck

import (
	"fmt"

	"github.com/goghcrow/go-co/seq"
	"verif/core"
	"verif/rt"
)

// C17 (runtime level) — every loop form around every non-yielding body term of size <= 3, n
// iterations between two yields; the stack depth is sampled inside the loop condition/body.

// Growth evaluates the invariant on samples (at[i], depth[i]) of one run with N probes: the maxima
// over (0,N/4], (N/4,N/2], (N/2,N] must not be strictly increasing. A bounded implementation,
// however it batches, cannot grow across both doublings; a linear one always does.
func Growth(at, depth []int, n int) (m1, m2, m3 int, grows bool) {
	for i, a := range at {
		d := depth[i]
		switch {
		case a <= n/4:
			if d > m1 {
				m1 = d
			}
		case a <= n/2:
			if d > m2 {
				m2 = d
			}
		default:
			if d > m3 {
				m3 = d
			}
		}
	}
	return m1, m2, m3, m3 > m2 && m2 > m1
}

// nonYieldingBodies: terms without Bind whose only silent outcomes are Normal/Continue.
func nonYieldingBodies(maxSize int) []*term {
	memo := map[int][]*term{}
	var out []*term
	for n := 1; n <= maxSize; n++ {
		for _, t := range enumTerms(n, memo) {
			if hasKind(t, "Bind") || hasKind(t, "BindRecv") || hasKind(t, "While") || hasKind(t, "For") || hasKind(t, "Loop") || hasKind(t, "ForNC") {
				continue
			}
			// Delay is event-ful in C08's encoding; here thunks are silent, so compute outcomes with DelayQ
			q := quiet(t)
			s := silent(q)
			if s&^(1|4) != 0 || s == 0 {
				continue
			}
			out = append(out, q)
		}
	}
	return out
}

func quiet(t *term) *term {
	if t == nil {
		return nil
	}
	k := t.K
	if k == "Delay" {
		k = "DelayQ"
	}
	return &term{K: k, A: quiet(t.A), B: quiet(t.B)}
}

func buildQuiet(t *term, c *rt.Ctx) seq.Seq[int] {
	switch t.K {
	case "DelayQ":
		return seq.Delay[int](func() seq.Seq[int] { c.Probe(); return buildQuiet(t.A, c) })
	case "Combine":
		return seq.Combine[int](buildQuiet(t.A, c), buildQuiet(t.B, c))
	case "Breakable":
		return seq.Breakable[int](buildQuiet(t.A, c))
	case "Continuable":
		return seq.Continuable[int](buildQuiet(t.A, c))
	}
	return build8(t, c)
}

// wrapHead rebuilds the loop with `head` in front of the body of every iteration.
func wrapHead(form string, head, loop seq.Seq[int], cond func() bool, body seq.Seq[int]) seq.Seq[int] {
	b := seq.Combine[int](head, body)
	switch form {
	case "While":
		return seq.While[int](cond, b)
	case "For":
		return seq.For[int](cond, func() {}, b)
	}
	return seq.Loop[int](seq.Combine[int](seq.Delay[int](func() seq.Seq[int] {
		if !cond() {
			return seq.Break[int]()
		}
		return seq.Normal[int]()
	}), b))
}

func C17Runtime(r *core.Report, tier string) {
	n := 1 << 12
	if tier == "thorough" {
		n = 1 << 16
	}
	bodies := nonYieldingBodies(3)
	forms := []string{"Loop", "While", "For"}
	type job struct {
		form       string
		body       *term
		afterYield bool
	}
	var jobs []job
	for _, f := range forms {
		for _, b := range bodies {
			jobs = append(jobs, job{f, b, false}, job{f, b, true})
		}
	}
	type res struct {
		m1, m2, m3 int
		grows      bool
		samples    int
	}
	results := make([]res, len(jobs))
	parallel(len(jobs), func(i int) {
		j := jobs[i]
		c := rt.New(nil, 1<<40, -1)
		it := 0
		body := buildQuiet(j.body, c)
		cond := func() bool { c.Probe(); it++; return it <= n }
		var loop seq.Seq[int]
		switch j.form {
		case "Loop":
			loop = seq.Loop[int](seq.Combine[int](seq.Delay[int](func() seq.Seq[int] {
				if !cond() {
					return seq.Break[int]()
				}
				return seq.Normal[int]()
			}), body))
		case "While":
			loop = seq.While[int](cond, body)
		case "For":
			loop = seq.For[int](cond, func() {}, body)
		}
		// the loop yields once right at its start and then runs n iterations without a yield: the
		// stretch is entered from a resumed continuation, not from the first advance
		first := true
		head := seq.Delay[int](func() seq.Seq[int] {
			if first && j.afterYield {
				first = false
				return seq.Bind[int](0, seq.Normal[int])
			}
			return seq.Normal[int]()
		})
		g := seq.Start(seq.Combine[int](wrapHead(j.form, head, loop, cond, body), seq.Bind[int](1, seq.Normal[int])))
		for g.MoveNext() {
		}
		rs := &results[i]
		rs.samples = len(c.ProbeAt)
		total := 0
		if len(c.ProbeAt) > 0 {
			total = c.ProbeAt[len(c.ProbeAt)-1]
		}
		rs.m1, rs.m2, rs.m3, rs.grows = Growth(c.ProbeAt, c.ProbeDepth, total)
	})
	// nested runtime loops: the inner loop completes a few iterations synchronously inside every
	// iteration of the outer one
	nested := 0
	for _, outer := range forms {
		for _, inner := range forms {
			for _, innerIters := range []int{1, 2} {
				c := rt.New(nil, 1<<40, -1)
				it := 0
				cond := func() bool { c.Probe(); it++; return it <= n }
				mkInner := func() seq.Seq[int] {
					j := 0
					icond := func() bool { j++; return j <= innerIters }
					ibody := seq.Delay[int](func() seq.Seq[int] { c.Probe(); return seq.Normal[int]() })
					switch inner {
					case "While":
						return seq.While[int](icond, ibody)
					case "For":
						return seq.For[int](icond, func() {}, ibody)
					}
					return seq.Loop[int](seq.Combine[int](seq.Delay[int](func() seq.Seq[int] {
						if !icond() {
							return seq.Break[int]()
						}
						return seq.Normal[int]()
					}), ibody))
				}
				body := seq.Delay[int](func() seq.Seq[int] { return mkInner() })
				g := seq.Start(seq.Combine[int](wrapHead(outer, seq.Normal[int](), nil, cond, body), seq.Bind[int](1, seq.Normal[int])))
				for g.MoveNext() {
				}
				total := 0
				if len(c.ProbeAt) > 0 {
					total = c.ProbeAt[len(c.ProbeAt)-1]
				}
				m1, m2, m3, grows := Growth(c.ProbeAt, c.ProbeDepth, total)
				nested++
				r.Add("states", 1)
				r.Add("transitions", total)
				r.Add("traces_validated_against_impl", 1)
				if grows {
					r.Fail(core.Failure{Key: fmt.Sprintf("seq:%s(%s x%d)", outer, inner, innerIters), Kind: "stack-growth",
						Detail: "stack depth grows with the number of non-yielding iterations",
						What:   "nested runtime loops: the depth inside the loops is not bounded independently of the outer iteration count",
						Replay: map[string]any{"iterations": n, "max_depth_first_quarter": m1, "second_quarter": m2, "second_half": m3}})
				}
			}
		}
	}
	r.Set("runtime_level_nested_loop_pairs", nested)
	for i, rs := range results {
		r.Add("states", 1)
		r.Add("transitions", n)
		r.Add("traces_validated_against_impl", 1)
		if rs.grows {
			r.Fail(core.Failure{Key: fmt.Sprintf("seq:%s(%s)%s", jobs[i].form, jobs[i].body, map[bool]string{false: "", true: " after a yield"}[jobs[i].afterYield]), Kind: "stack-growth",
				Detail: "stack depth grows with the number of non-yielding iterations",
				What:   "call-stack depth inside the loop is not bounded independently of the iteration count",
				Replay: map[string]any{"iterations": n, "max_depth_first_quarter": rs.m1, "second_quarter": rs.m2, "second_half": rs.m3}})
		}
		if i%17 == 3 {
			r.Sample(map[string]any{"term": fmt.Sprintf("%s(%s)", jobs[i].form, jobs[i].body), "iterations": n, "depth_maxima_q1_q2_h2": []int{rs.m1, rs.m2, rs.m3}})
		}
	}
	r.Set("runtime_level", map[string]any{"loop_forms": forms, "non_yielding_bodies": len(bodies), "iterations": n})
}
