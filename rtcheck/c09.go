package rtcheck

import (
	"fmt"
	"reflect"
	"strings"

	"github.com/goghcrow/go-co/seq"
	"verif/core"
)

// C09 — iterator protocol. Every history over {MoveNext, Current, Result, Send(1), Send(2)} up to
// a length bound, replayed on a fresh real iterator for every generator of a small family, against
// an abstract machine written from the property statement.

// g9 describes one generator of the family. A generator is, abstractly, a function from
// (number of yields delivered so far, last received value) to a segment: the effects the
// segment logs and then either the value it yields or the result it completes with.
type g9 struct {
	Shape string // chain | bind | mixed | for | loop | forret | whileret | loopret
	N     int    // yields (ignored by loop: infinite)
	Echo  int    // 1: yielded values and result depend on the received value
	Ret   int    // 0: plain Return(); otherwise ReturnValue(Ret + Echo*recv)
}

func (g g9) String() string {
	return fmt.Sprintf("%s(n=%d,echo=%d,ret=%d)", g.Shape, g.N, g.Echo, g.Ret)
}

// segment is the model's view of what the generator does when resumed after `pos` yields with
// received value recv (recv is meaningless for pos==0: nothing has been yielded yet).
func (g g9) segment(pos, recv int) (effects []string, yields bool, val int) {
	r := recv * g.Echo
	if g.Shape == "bind" {
		recv, r = 0, 0 // Bind ignores what is sent
	}
	switch g.Shape {
	case "mixed": // yields alternate between Bind (even positions) and BindRecv (odd positions)
		rr := r
		if pos > 0 && (pos-1)%2 == 0 {
			recv, rr = 0, 0 // the previous yield was a plain Bind: what was sent is ignored
		}
		if pos == 0 {
			effects = append(effects, "start")
		} else {
			effects = append(effects, fmt.Sprintf("k%d(%d)", pos-1, recv))
		}
		if pos == g.N {
			return effects, false, g.result(rr)
		}
		return effects, true, 10*(pos+1) + rr
	case "chain", "bind":
		if pos == 0 {
			effects = append(effects, "start")
		} else {
			effects = append(effects, fmt.Sprintf("k%d(%d)", pos-1, recv))
		}
		if pos == g.N {
			return effects, false, g.result(r)
		}
		return effects, true, 10*(pos+1) + r
	case "for":
		if pos == 0 {
			effects = append(effects, "start", "cond")
		} else {
			effects = append(effects, fmt.Sprintf("k%d(%d)", pos-1, recv), "post", "cond")
		}
		if pos == g.N {
			effects = append(effects, "after")
			return effects, false, g.result(0)
		}
		return effects, true, 10*(pos+1) + r
	case "loop":
		if pos == 0 {
			effects = append(effects, "start")
		} else {
			effects = append(effects, fmt.Sprintf("k%d(%d)", pos-1, recv))
		}
		return effects, true, 10*(pos+1) + r
	case "forret", "whileret": // the return is raised inside the loop body, before the yield of iteration N
		if pos == 0 {
			effects = append(effects, "start", "cond")
		} else if g.Shape == "forret" {
			effects = append(effects, fmt.Sprintf("k%d(%d)", pos-1, recv), "post", "cond")
		} else {
			effects = append(effects, fmt.Sprintf("k%d(%d)", pos-1, recv), "cond")
		}
		if pos == g.N {
			return effects, false, g.result(r)
		}
		return effects, true, 10*(pos+1) + r
	case "loopret": // the return is raised inside the body of Loop, after the N-th yield was answered (N >= 1)
		if pos == 0 {
			effects = append(effects, "start")
		} else {
			effects = append(effects, fmt.Sprintf("k%d(%d)", pos-1, recv))
		}
		if pos == g.N {
			return effects, false, g.result(r)
		}
		return effects, true, 10*(pos+1) + r
	}
	panic(g.Shape)
}

func (g g9) result(r int) int {
	if g.Ret == 0 {
		return 0
	}
	return g.Ret + r
}

// build constructs the real term with the public seq API.
func (g g9) build(log *[]string) seq.Seq[int] {
	eff := func(s string) { *log = append(*log, s) }
	ret := func(r int) seq.Seq[int] {
		if g.Ret == 0 {
			return seq.Return[int]()
		}
		return seq.ReturnValue[int](g.Ret + r)
	}
	switch g.Shape {
	case "chain":
		var mk func(i, recv int) seq.Seq[int]
		mk = func(i, recv int) seq.Seq[int] {
			if i == g.N {
				return ret(g.Echo * recv)
			}
			return seq.BindRecv[int](10*(i+1)+g.Echo*recv, func(r int) seq.Seq[int] {
				eff(fmt.Sprintf("k%d(%d)", i, r))
				return mk(i+1, r)
			})
		}
		return seq.Delay[int](func() seq.Seq[int] { eff("start"); return mk(0, 0) })
	case "mixed":
		var mk func(i, recv int) seq.Seq[int]
		mk = func(i, recv int) seq.Seq[int] {
			if i == g.N {
				return ret(g.Echo * recv)
			}
			if i%2 == 0 {
				return seq.Bind[int](10*(i+1)+g.Echo*recv, func() seq.Seq[int] {
					eff(fmt.Sprintf("k%d(%d)", i, 0))
					return mk(i+1, 0)
				})
			}
			return seq.BindRecv[int](10*(i+1)+g.Echo*recv, func(r int) seq.Seq[int] {
				eff(fmt.Sprintf("k%d(%d)", i, r))
				return mk(i+1, r)
			})
		}
		return seq.Delay[int](func() seq.Seq[int] { eff("start"); return mk(0, 0) })
	case "bind":
		var mk func(i int) seq.Seq[int]
		mk = func(i int) seq.Seq[int] {
			if i == g.N {
				return ret(0)
			}
			return seq.Bind[int](10*(i+1), func() seq.Seq[int] {
				eff(fmt.Sprintf("k%d(%d)", i, 0))
				return mk(i + 1)
			})
		}
		return seq.Delay[int](func() seq.Seq[int] { eff("start"); return mk(0) })
	case "for":
		return seq.Delay[int](func() seq.Seq[int] {
			eff("start")
			i, last := 0, 0
			return seq.Combine[int](
				seq.For[int](
					func() bool { eff("cond"); return i < g.N },
					func() { eff("post"); i++ },
					seq.Delay[int](func() seq.Seq[int] {
						return seq.BindRecv[int](10*(i+1)+g.Echo*last, func(r int) seq.Seq[int] {
							eff(fmt.Sprintf("k%d(%d)", i, r))
							last = r
							return seq.Normal[int]()
						})
					})),
				seq.Delay[int](func() seq.Seq[int] { eff("after"); return ret(0) }),
			)
		})
	case "forret", "whileret":
		return seq.Delay[int](func() seq.Seq[int] {
			eff("start")
			i, last := 0, 0
			body := seq.Delay[int](func() seq.Seq[int] {
				if i == g.N {
					return ret(g.Echo * last)
				}
				return seq.BindRecv[int](10*(i+1)+g.Echo*last, func(r int) seq.Seq[int] {
					eff(fmt.Sprintf("k%d(%d)", i, r))
					last = r
					if g.Shape == "whileret" {
						i++
					}
					return seq.Normal[int]()
				})
			})
			cond := func() bool { eff("cond"); return i < 99 }
			var loop seq.Seq[int]
			if g.Shape == "forret" {
				loop = seq.For[int](cond, func() { eff("post"); i++ }, body)
			} else {
				loop = seq.While[int](cond, body)
			}
			// the value returned through the loop must also pass the Combine around it
			return seq.Combine[int](loop, seq.Delay[int](func() seq.Seq[int] { eff("after"); return seq.ReturnValue[int](-1) }))
		})
	case "loopret":
		return seq.Delay[int](func() seq.Seq[int] {
			eff("start")
			i, last := 0, 0
			return seq.Loop[int](seq.Delay[int](func() seq.Seq[int] {
				return seq.BindRecv[int](10*(i+1)+g.Echo*last, func(r int) seq.Seq[int] {
					eff(fmt.Sprintf("k%d(%d)", i, r))
					last = r
					i++
					if i == g.N {
						return ret(g.Echo * r)
					}
					return seq.Normal[int]()
				})
			}))
		})
	case "loop":
		return seq.Delay[int](func() seq.Seq[int] {
			eff("start")
			i, last := 0, 0
			return seq.Loop[int](seq.Delay[int](func() seq.Seq[int] {
				return seq.BindRecv[int](10*(i+1)+g.Echo*last, func(r int) seq.Seq[int] {
					eff(fmt.Sprintf("k%d(%d)", i, r))
					last = r
					i++
					return seq.Normal[int]()
				})
			}))
		})
	}
	panic(g.Shape)
}

// ops: 0 MoveNext, 1 Current, 2 Result, 3 Send(1), 4 Send(2)
var ops9 = []string{"MoveNext", "Current", "Result", "Send(1)", "Send(2)"}

func runReal9(g g9, ops []int) []string {
	var log []string
	it := seq.Start(g.build(&log)).(seq.Generator[int])
	done := false
	for _, op := range ops {
		switch op {
		case 0:
			ok := it.MoveNext()
			log = append(log, fmt.Sprintf("M=%v", ok))
			done = done || !ok
		case 1:
			log = append(log, fmt.Sprintf("C=%d", it.Current()))
		case 2:
			if done {
				log = append(log, fmt.Sprintf("R=%d", it.Result()))
			} else {
				it.Result() // must be harmless; its value is unspecified before completion
				log = append(log, "R?")
			}
		default:
			v, ok := it.Send(op - 2)
			log = append(log, fmt.Sprintf("S=%d,%v", v, ok))
			done = done || !ok
		}
	}
	return log
}

// machine is the abstract iterator of the property statement: not started / suspended after
// pos yields / done.
type machine struct {
	g                  g9
	log                []string
	started, fin       bool
	pos, cur, res, rcv int
}

func (m *machine) advance(v int) bool {
	if m.fin {
		return false // permanent, and no generator code runs
	}
	eff, yields, val := m.g.segment(m.pos, v)
	m.log = append(m.log, eff...)
	if !yields {
		m.fin, m.cur, m.res = true, 0, val
		return false
	}
	m.cur = val
	m.pos++
	return true
}

func (m *machine) state() string {
	return fmt.Sprintf("%v/%v/%d/%d", m.started, m.fin, m.pos, m.cur)
}

func runModel9(g g9, ops []int, states map[string]bool) []string {
	m := &machine{g: g}
	for _, op := range ops {
		switch op {
		case 0:
			m.started = true
			ok := m.advance(0)
			m.log = append(m.log, fmt.Sprintf("M=%v", ok))
		case 1:
			m.log = append(m.log, fmt.Sprintf("C=%d", m.cur))
		case 2:
			if m.fin {
				m.log = append(m.log, fmt.Sprintf("R=%d", m.res))
			} else {
				m.log = append(m.log, "R?")
			}
		default:
			ok := true
			if !m.started {
				m.started = true
				ok = m.advance(0)
			}
			if ok {
				ok = m.advance(op - 2)
			}
			if ok {
				m.log = append(m.log, fmt.Sprintf("S=%d,%v", m.cur, true))
			} else {
				m.log = append(m.log, fmt.Sprintf("S=%d,%v", 0, false))
			}
		}
		states[g.String()+"|"+m.state()] = true
	}
	return m.log
}

func opsString(ops []int) string {
	s := make([]string, len(ops))
	for i, o := range ops {
		s[i] = ops9[o]
	}
	return strings.Join(s, " ")
}

func C09(tier string) *core.Report {
	r := core.NewReport("C09", tier)
	L := 6
	if tier == "thorough" {
		L = 8
	}
	var gens []g9
	for n := 0; n <= 3; n++ {
		for _, e := range []int{0, 1} {
			for _, ret := range []int{0, 500} {
				gens = append(gens, g9{"chain", n, e, ret})
				gens = append(gens, g9{"for", n, e, ret})
				gens = append(gens, g9{"forret", n, e, ret}, g9{"whileret", n, e, ret})
				if n >= 1 {
					gens = append(gens, g9{"loopret", n, e, ret})
				}
			}
		}
		gens = append(gens, g9{"bind", n, 0, 0}, g9{"bind", n, 0, 500})
		gens = append(gens, g9{"mixed", n, 1, 0}, g9{"mixed", n, 1, 500})
	}
	gens = append(gens, g9{"loop", 0, 0, 0}, g9{"loop", 0, 1, 0})

	type res struct {
		states, distinct               map[string]bool
		histories, transitions, leaves int
		fails                          []core.Failure
		samples                        []any
	}
	results := make([]res, len(gens))
	parallel(len(gens), func(gi int) {
		g := gens[gi]
		rs := &results[gi]
		rs.states, rs.distinct = map[string]bool{}, map[string]bool{}
		failed := false
		ops := make([]int, 0, L)
		var rec func()
		rec = func() {
			if failed {
				return
			}
			if len(ops) > 0 {
				rs.histories++
			}
			if len(ops) == L {
				// A maximal history: its log contains the observation of every prefix.
				rs.leaves++
				real := runReal9(g, ops)
				model := runModel9(g, ops, rs.states)
				rs.transitions += len(ops)
				rs.distinct[strings.Join(model, ";")] = true
				if rs.leaves%7919 == 77 && len(rs.samples) < 1 {
					rs.samples = append(rs.samples, map[string]any{"generator": g.String(), "history": opsString(ops), "observed": real})
				}
				if !reflect.DeepEqual(real, model) {
					// shortest failing prefix of this history
					k := 1
					for ; k < len(ops); k++ {
						if !reflect.DeepEqual(runReal9(g, ops[:k]), runModel9(g, ops[:k], map[string]bool{})) {
							break
						}
					}
					pre := append([]int{}, ops[:k]...)
					rs.fails = append(rs.fails, core.Failure{
						Key:    g.String() + " :: " + opsString(pre),
						Kind:   "protocol-divergence",
						Detail: firstDiff(runReal9(g, pre), runModel9(g, pre, map[string]bool{})),
						What:   "iterator protocol differs from the abstract machine",
						Replay: map[string]any{"generator": g, "ops": pre, "real": runReal9(g, pre), "model": runModel9(g, pre, map[string]bool{})},
					})
					failed = true
				}
				return
			}
			for o := range ops9 {
				ops = append(ops, o)
				rec()
				ops = ops[:len(ops)-1]
			}
		}
		rec()
	})
	states := map[string]bool{}
	histories, transitions, leaves, ndistinct := 0, 0, 0, 0
	for _, rs := range results {
		for k := range rs.states {
			states[k] = true
		}
		ndistinct += len(rs.distinct)
		histories += rs.histories
		transitions += rs.transitions
		leaves += rs.leaves
		for _, f := range rs.fails {
			r.Fail(f)
		}
		for _, s := range rs.samples {
			r.Sample(s)
		}
	}
	r.Set("states", len(states))
	r.Set("transitions", transitions)
	r.Set("traces_validated_against_impl", histories)
	r.Set("maximal_histories_executed", leaves)
	r.Set("distinct_observations", ndistinct)
	r.Set("generators", len(gens))
	r.Set("history_length_bound", L)
	r.Set("rule", "every history over {MoveNext,Current,Result,Send(1),Send(2)} up to the length bound on every generator of the family; prefixes are decided by the maximal history containing them (sequential log)")
	r.Assume("Result is compared only after the iterator has reported exhaustion (the statement defines it only then)")
	r.Assume("generator family: BindRecv chains, Bind chains, For-loop generators and an infinite Loop generator with 0..3 yields, with/without echo of the received value and ReturnValue")
	return r
}

func firstDiff(a, b []string) string {
	n := len(a)
	if len(b) < n {
		n = len(b)
	}
	for i := 0; i < n; i++ {
		if a[i] != b[i] {
			return fmt.Sprintf("at %d: impl %q, reference %q", i, a[i], b[i])
		}
	}
	if len(a) != len(b) {
		if len(a) > n {
			return fmt.Sprintf("at %d: impl %q, reference ends", n, a[n])
		}
		return fmt.Sprintf("at %d: impl ends, reference %q", n, b[n])
	}
	return "equal"
}
