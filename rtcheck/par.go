package rtcheck

import (
	"runtime"
	"sync"
)

// parallel runs f(i) for i in [0,n) on all cores; f must only touch its own slot of any result slice.
func parallel(n int, f func(i int)) {
	w := runtime.NumCPU()
	if w > n {
		w = n
	}
	var wg sync.WaitGroup
	ch := make(chan int)
	for k := 0; k < w; k++ {
		wg.Add(1)
		go func() {
			defer wg.Done()
			for i := range ch {
				f(i)
			}
		}()
	}
	for i := 0; i < n; i++ {
		ch <- i
	}
	close(ch)
	wg.Wait()
}
