package rtcheck

import (
	"runtime"
	"sync"
	"sync/atomic"
	"time"
)

// parallel runs f(i) for i in [0,n) on all cores; f must only touch its own slot of any result slice.
func parallel(n int, f func(i int)) { parallelTimeout(n, 0, f) }

// parallelTimeout is parallel with a watchdog: an item that does not finish within d (d > 0) is
// abandoned (its goroutine keeps spinning) and reported in hung. After 8 abandoned items no new
// ones are started: the machine is then mostly busy with runaway executions.
func parallelTimeout(n int, d time.Duration, f func(i int)) (hung []int, skipped int) {
	w := runtime.NumCPU()
	if w > n {
		w = n
	}
	var wg sync.WaitGroup
	var mu sync.Mutex
	var nHung int32
	ch := make(chan int)
	for k := 0; k < w; k++ {
		wg.Add(1)
		go func() {
			defer wg.Done()
			for i := range ch {
				if atomic.LoadInt32(&nHung) >= 8 {
					mu.Lock()
					skipped++
					mu.Unlock()
					continue
				}
				if d <= 0 {
					f(i)
					continue
				}
				done := make(chan struct{})
				go func() { f(i); close(done) }()
				select {
				case <-done:
				case <-time.After(d):
					atomic.AddInt32(&nHung, 1)
					mu.Lock()
					hung = append(hung, i)
					mu.Unlock()
				}
			}
		}()
	}
	for i := 0; i < n; i++ {
		ch <- i
	}
	close(ch)
	wg.Wait()
	return
}
