package rtcheck

import (
	"fmt"
	"reflect"
	"strings"
	"time"

	"github.com/goghcrow/go-co/seq"
	"verif/core"
	"verif/rt"
)

// C08 — the runtime combinators against a direct interpreter for structured loops.
//
// alphabet: Normal Break Continue Return RetV | Bind BindRecv Delay Loop While For ForNC (unary) | Combine
// bound:    term size, answer depth D, fuel F, consumer strings over {M,S}, one injected panic
// oracle:   marked log of the real term == marked log written by exec() below.

type term struct {
	K    string
	A, B *term
	id   int
}

func (t *term) String() string {
	switch {
	case t.A == nil:
		return t.K
	case t.B == nil:
		return t.K + "(" + t.A.String() + ")"
	}
	return t.K + "(" + t.A.String() + "," + t.B.String() + ")"
}

// countIDs: number of nodes that carry an id (everything but Combine / DelayQ).
func countIDs(t *term) int {
	if t == nil {
		return 0
	}
	n := countIDs(t.A) + countIDs(t.B)
	if t.id != 0 {
		n++
	}
	return n
}

func (t *term) size() int {
	if t == nil {
		return 0
	}
	return 1 + t.A.size() + t.B.size()
}

var leaves8 = []string{"Normal", "Break", "Continue", "Return", "RetV"}
var unary8 = []string{"Bind", "BindRecv", "Delay", "Loop", "While", "For", "ForNC", "Breakable", "Continuable"}

func enumTerms(n int, memo map[int][]*term) []*term {
	if r, ok := memo[n]; ok {
		return r
	}
	var res []*term
	if n == 1 {
		for _, k := range leaves8 {
			res = append(res, &term{K: k})
		}
	} else {
		for _, k := range unary8 {
			for _, a := range enumTerms(n-1, memo) {
				res = append(res, &term{K: k, A: a})
			}
		}
		for i := 1; i <= n-2; i++ {
			for _, a := range enumTerms(i, memo) {
				for _, b := range enumTerms(n-1-i, memo) {
					res = append(res, &term{K: "Combine", A: a, B: b})
				}
			}
		}
	}
	memo[n] = res
	return res
}

// clone gives every term its own nodes (enumeration shares subterms) and numbers them.
// Combine and DelayQ nodes consume no id, so both sides of a law are numbered alike.
func clone(t *term, n *int) *term {
	if t == nil {
		return nil
	}
	c := &term{K: t.K}
	if t.K != "Combine" && t.K != "DelayQ" {
		*n++
		c.id = *n
	}
	c.A = clone(t.A, n)
	c.B = clone(t.B, n)
	return c
}

// silent: outcomes reachable without logging any event. bits N=1 B=2 C=4 R=8 Spin=16
func silent(t *term) int {
	switch t.K {
	case "Normal":
		return 1
	case "Break":
		return 2
	case "Continue":
		return 4
	case "Return", "RetV":
		return 8
	case "Bind", "BindRecv", "Delay", "While", "For":
		return 0
	case "DelayQ":
		return silent(t.A)
	case "Breakable", "Continuable":
		a := silent(t.A)
		bit := 2
		if t.K == "Continuable" {
			bit = 4
		}
		if a&bit != 0 {
			a = a&^bit | 1
		}
		return a
	case "Combine":
		a := silent(t.A)
		r := a &^ 1
		if a&1 != 0 {
			r |= silent(t.B)
		}
		return r
	case "Loop", "ForNC":
		a := silent(t.A)
		r := a & 16
		if a&2 != 0 {
			r |= 1
		}
		if a&8 != 0 {
			r |= 8
		}
		if a&(1|4) != 0 && t.K == "Loop" {
			r |= 16
		}
		return r
	}
	panic(t.K)
}

func spins(t *term) bool {
	if t == nil {
		return false
	}
	return silent(t)&16 != 0 || spins(t.A) || spins(t.B)
}

func hasKind(t *term, k string) bool {
	if t == nil {
		return false
	}
	return t.K == k || hasKind(t.A, k) || hasKind(t.B, k)
}

// shareStructure renumbers t so that structurally identical subterms carry identical ids; build8
// then builds each distinct subterm once (see builder.share), so one Seq VALUE occurs at several
// positions of the term - as it does when user code stores a Seq in a variable and uses it twice.
func shareStructure(t *term, table map[string]int) *term {
	if t == nil {
		return nil
	}
	c := &term{K: t.K, A: shareStructure(t.A, table), B: shareStructure(t.B, table)}
	if t.K != "Combine" && t.K != "DelayQ" {
		key := t.String()
		id, ok := table[key]
		if !ok {
			id = len(table) + 1
			table[key] = id
		}
		c.id = id
	}
	return c
}

// shared, when non-nil, memoises built Seq values by structure for the duration of one execution.
var sharedKey = struct{}{}

type shareMemo map[string]seq.Seq[int]

// ---- the real term, built with the public seq API
func build8(t *term, c *rt.Ctx) seq.Seq[int] {
	if m, ok := c.Aux.(shareMemo); ok {
		key := t.String()
		if s, ok := m[key]; ok {
			return s
		}
		s := build8raw(t, c)
		m[key] = s
		return s
	}
	return build8raw(t, c)
}

func build8raw(t *term, c *rt.Ctx) seq.Seq[int] {
	switch t.K {
	case "Normal":
		return seq.Normal[int]()
	case "Break":
		return seq.Break[int]()
	case "Continue":
		return seq.Continue[int]()
	case "Return":
		return seq.Return[int]()
	case "RetV":
		return seq.ReturnValue[int](100 + t.id)
	case "Bind":
		return seq.Bind[int](t.id, func() seq.Seq[int] { c.E(t.id); return build8(t.A, c) })
	case "BindRecv":
		return seq.BindRecv[int](t.id, func(r int) seq.Seq[int] { c.E(1000*r + t.id); return build8(t.A, c) })
	case "Delay":
		return seq.Delay[int](func() seq.Seq[int] { c.E(t.id); return build8(t.A, c) })
	case "DelayQ":
		return seq.Delay[int](func() seq.Seq[int] { return build8(t.A, c) })
	case "Combine":
		return seq.Combine[int](build8(t.A, c), build8(t.B, c))
	case "Breakable":
		return seq.Breakable[int](build8(t.A, c))
	case "Continuable":
		return seq.Continuable[int](build8(t.A, c))
	case "Loop":
		return seq.Loop[int](build8(t.A, c))
	case "While":
		return seq.While[int](func() bool { return c.B(t.id) }, build8(t.A, c))
	case "For":
		return seq.For[int](func() bool { return c.B(t.id) }, func() { c.E(500 + t.id) }, build8(t.A, c))
	case "ForNC":
		return seq.For[int](nil, func() { c.E(500 + t.id) }, build8(t.A, c))
	}
	panic(t.K)
}

// ---- reference: direct interpreter. A yield hands control to the consumer model, which
// writes the consumer-side record and answers with the value the next operation sends.

type sig8 struct {
	k int // 0 normal 1 break 2 continue 3 return
	v int
}

type stop8 struct{} // consumer string exhausted while the generator is suspended

type consumer8 struct {
	c       *rt.Ctx
	ops     string
	i       int  // operation being served
	started bool // generator has been started
	auto    bool // serving the auto-start half of a Send on an unstarted generator
}

// begin starts serving ops[i]; returns the value the operation sends.
func (k *consumer8) begin() int {
	k.c.Mark(fmt.Sprintf("%c%d>", k.ops[k.i], k.i))
	if k.ops[k.i] == 'S' {
		if !k.started {
			k.auto = true
			return 0
		}
		return 7
	}
	return 0
}

// yield is called by the interpreter at a Bind: the current advance delivers v.
func (k *consumer8) yield(v int) (recv int) {
	k.started = true
	if k.auto { // first half of Send on an unstarted generator: now resume with the sent value
		k.auto = false
		return 7
	}
	if k.ops[k.i] == 'M' {
		k.c.Mark(fmt.Sprintf("M<true,%d", v))
	} else {
		k.c.Mark(fmt.Sprintf("S<true,%d,%d", v, v))
	}
	k.i++
	if k.i == len(k.ops) {
		panic(stop8{})
	}
	return k.begin()
}

// finish is called when the body completed with result res: the operation being served and all
// later ones report exhaustion and run nothing.
func (k *consumer8) finish(res int) {
	for first := true; k.i < len(k.ops); k.i++ {
		if !first {
			k.c.Mark(fmt.Sprintf("%c%d>", k.ops[k.i], k.i))
		}
		first = false
		if k.ops[k.i] == 'M' {
			k.c.Mark("M<false,0")
		} else {
			k.c.Mark("S<false,0,0")
		}
		k.c.Mark(fmt.Sprintf("R=%d", res))
	}
}

func exec8(t *term, c *rt.Ctx, k *consumer8, recv *int) sig8 {
	switch t.K {
	case "Normal":
		return sig8{0, 0}
	case "Break":
		return sig8{1, 0}
	case "Continue":
		return sig8{2, 0}
	case "Return":
		return sig8{3, 0}
	case "RetV":
		return sig8{3, 100 + t.id}
	case "Bind":
		*recv = k.yield(t.id)
		c.E(t.id)
		return exec8(t.A, c, k, recv)
	case "BindRecv":
		*recv = k.yield(t.id)
		c.E(1000**recv + t.id)
		return exec8(t.A, c, k, recv)
	case "Delay":
		c.E(t.id)
		return exec8(t.A, c, k, recv)
	case "DelayQ":
		return exec8(t.A, c, k, recv)
	case "Combine":
		s := exec8(t.A, c, k, recv)
		if s.k != 0 {
			return s
		}
		return exec8(t.B, c, k, recv)
	case "Breakable": // a switch statement: break ends it
		s := exec8(t.A, c, k, recv)
		if s.k == 1 {
			return sig8{0, 0}
		}
		return s
	case "Continuable": // a loop body in front of a yielding post statement: continue ends the body only
		s := exec8(t.A, c, k, recv)
		if s.k == 2 {
			return sig8{0, 0}
		}
		return s
	case "Loop", "While", "For", "ForNC":
		for first := true; ; first = false {
			if !first && (t.K == "For" || t.K == "ForNC") {
				c.E(500 + t.id)
			}
			if (t.K == "While" || t.K == "For") && !c.B(t.id) {
				return sig8{0, 0}
			}
			s := exec8(t.A, c, k, recv)
			switch s.k {
			case 1:
				return sig8{0, 0}
			case 3:
				return s
			}
		}
	}
	panic(t.K)
}

const fuel8 = 24

type exec8res struct {
	log     []string
	choices []int
	arity   []int
	events  int
}

// runReal8 drives the real term; runs times on the same Seq value (re-use).
func runReal8(t *term, ans []int, ops string, panicAt, runs int) exec8res {
	c := rt.New(ans, fuel8, panicAt)
	if runs < 0 { // shared-structure mode: one Seq value per distinct subterm
		runs = 1
		c.Aux = shareMemo{}
	}
	cur := -1
	func() {
		defer func() {
			if r := recover(); r != nil {
				c.Mark(fmt.Sprintf("PANIC@%d %#v", cur, r))
			}
		}()
		s := build8(t, c)
		for run := 0; run < runs; run++ {
			g := seq.Start(s).(seq.Generator[int])
			done := false
			for i, op := range ops {
				cur = i
				c.Mark(fmt.Sprintf("%c%d>", op, i))
				if op == 'M' {
					ok := g.MoveNext()
					c.Mark(fmt.Sprintf("M<%v,%d", ok, g.Current()))
					done = !ok
				} else {
					v, ok := g.Send(7)
					c.Mark(fmt.Sprintf("S<%v,%d,%d", ok, v, g.Current()))
					done = !ok
				}
				if done {
					c.Mark(fmt.Sprintf("R=%d", g.Result()))
				}
			}
		}
	}()
	return exec8res{c.Log, c.Choices, c.Arity, c.Events()}
}

func runRef8(t *term, ans []int, ops string, panicAt, runs int) exec8res {
	if runs < 0 {
		runs = 1
	}
	c := rt.New(ans, fuel8, panicAt)
	k := &consumer8{c: c, ops: ops}
	func() {
		defer func() {
			if r := recover(); r != nil {
				if _, ok := r.(stop8); ok {
					return
				}
				c.Mark(fmt.Sprintf("PANIC@%d %#v", k.i, r))
			}
		}()
		for run := 0; run < runs; run++ {
			*k = consumer8{c: c, ops: ops}
			if len(ops) == 0 {
				continue
			}
			stopped := func() (stopped bool) {
				defer func() {
					if r := recover(); r != nil {
						if _, ok := r.(stop8); ok {
							stopped = true
							return
						}
						panic(r)
					}
				}()
				recv := k.begin()
				res := exec8(t, c, k, &recv)
				k.finish(res.v)
				return false
			}()
			_ = stopped
		}
	}()
	return exec8res{c.Log, c.Choices, c.Arity, c.Events()}
}

func opStrings8(l int) []string {
	var res []string
	for m := 0; m < 1<<l; m++ {
		var sb strings.Builder
		for i := 0; i < l; i++ {
			if m>>i&1 == 1 {
				sb.WriteByte('S')
			} else {
				sb.WriteByte('M')
			}
		}
		res = append(res, sb.String())
	}
	return res
}

type res8 struct {
	nodes, execs, events int
	distinct             map[string]bool
	fail                 *core.Failure
	sample               any
}

// explore8 runs the DFS over answers for one term and one configuration.
func explore8(t *term, opsList []string, D int, inject bool, runs int, rs *res8) {
	for _, ops := range opsList {
		work := [][]int{{}}
		for len(work) > 0 {
			pre := work[len(work)-1]
			work = work[:len(work)-1]
			rs.nodes++
			ref := runRef8(t, pre, ops, -1, runs)
			out := runReal8(t, pre, ops, -1, runs)
			rs.execs++
			rs.events += ref.events
			rs.distinct[strings.Join(ref.log, ";")] = true
			if rs.sample == nil && len(pre) > 0 && ref.events > 3 {
				rs.sample = map[string]any{"term": t.String(), "consumer": ops, "answers": pre, "log": ref.log}
			}
			if !reflect.DeepEqual(ref.log, out.log) {
				rs.fail = fail8(t, ops, pre, -1, runs, ref.log, out.log)
				return
			}
			for i := len(pre); i < len(ref.choices) && i < D; i++ {
				for alt := 1; alt < ref.arity[i]; alt++ {
					work = append(work, append(append([]int{}, ref.choices[:i]...), alt))
				}
			}
			if inject {
				for j := 0; j < ref.events; j++ {
					rp := runRef8(t, pre, ops, j, runs)
					op := runReal8(t, pre, ops, j, runs)
					rs.execs++
					rs.events += rp.events
					if !reflect.DeepEqual(rp.log, op.log) {
						rs.fail = fail8(t, ops, pre, j, runs, rp.log, op.log)
						return
					}
				}
			}
		}
	}
}

func fail8(t *term, ops string, ans []int, panicAt, runs int, ref, out []string) *core.Failure {
	return &core.Failure{
		Key:    t.String(),
		Kind:   "combinator-divergence",
		Detail: classify8(ref, out),
		What:   "seq term behaves differently from the structured-loop interpreter",
		Replay: map[string]any{"term": t.String(), "consumer": ops, "answers": ans, "panic_at": panicAt, "runs": runs, "reference": ref, "impl": out},
	}
}

// classify8 names the first differing record by its class (event letter / mark kind), so that
// one defect has one detail string whatever ids are involved.
func classify8(ref, out []string) string {
	cls := func(s string) string {
		for i, ch := range s {
			if ch >= '0' && ch <= '9' || ch == '<' || ch == '=' || ch == '@' {
				return s[:i]
			}
		}
		return s
	}
	n := len(ref)
	if len(out) < n {
		n = len(out)
	}
	for i := 0; i < n; i++ {
		if ref[i] != out[i] {
			return "reference " + cls(ref[i]) + " vs impl " + cls(out[i])
		}
	}
	if len(ref) > n {
		return "impl log ends early; reference continues with " + cls(ref[n])
	}
	if len(out) > n {
		return "impl log continues with " + cls(out[n])
	}
	return "equal"
}

func C08(tier string) *core.Report {
	r := core.NewReport("C08", tier)
	maxFull, maxLite := 4, 0
	D := 4
	if tier == "thorough" {
		maxFull, maxLite = 5, 6
	}
	memo := map[int][]*term{}
	type job struct {
		t      *term
		lite   bool
		shared *term // non-nil when the term has repeated subterms
	}
	var jobs []job
	pruned := 0
	for n := 1; n <= maxFull || n <= maxLite; n++ {
		for _, t := range enumTerms(n, memo) {
			if spins(t) {
				pruned++
				continue
			}
			k := 0
			j := job{t: clone(t, &k), lite: n > maxFull}
			table := map[string]int{}
			sh := shareStructure(t, table)
			if countIDs(sh) > len(table) {
				j.shared = sh
			}
			jobs = append(jobs, j)
		}
	}
	// sharing templates: one subterm X (a yielding term of size 2..3) used at several positions with
	// different continuations; explored with every distinct subterm built once (one Seq value)
	shareN := 0
	for n := 2; n <= 3; n++ {
		for _, x := range enumTerms(n, memo) {
			if !hasKind(x, "Bind") && !hasKind(x, "BindRecv") || spins(x) {
				continue
			}
			for _, tpl := range []*term{
				{K: "Combine", A: x, B: x},
				{K: "Combine", A: &term{K: "Combine", A: x, B: x}, B: x},
				{K: "While", A: &term{K: "Combine", A: x, B: x}},
				{K: "Combine", A: x, B: &term{K: "Combine", A: &term{K: "Delay", A: &term{K: "Normal"}}, B: x}},
				{K: "Combine", A: &term{K: "Loop", A: &term{K: "Combine", A: x, B: &term{K: "Break"}}}, B: x},
			} {
				if spins(tpl) {
					continue
				}
				k := 0
				jobs = append(jobs, job{t: clone(tpl, &k), lite: true, shared: shareStructure(tpl, map[string]int{})})
				shareN++
			}
		}
	}
	ops4 := opStrings8(4)
	long := []string{strings.Repeat("M", 12), strings.Repeat("S", 6)}
	results := make([]res8, len(jobs))
	scratch := make([]res8, len(jobs))
	hung, skipped := parallelTimeout(len(jobs), 90*time.Second, func(i int) {
		j := jobs[i]
		rs := &scratch[i]
		defer func() { results[i] = *rs }()
		rs.distinct = map[string]bool{}
		if j.lite {
			explore8(j.t, long[:1], D, false, 1, rs)
			if rs.fail == nil && j.shared != nil {
				explore8(j.shared, []string{strings.Repeat("M", 12), "MSMS", "SSSS"}, D, true, -1, rs)
			}
			return
		}
		explore8(j.t, append(append([]string{}, ops4...), long...), D, true, 1, rs)
		if rs.fail == nil {
			// the same Seq value started twice
			explore8(j.t, []string{"MMMM", "MSMS"}, 3, false, 2, rs)
		}
		if rs.fail == nil && j.shared != nil {
			// structurally identical subterms built once: one Seq value at several positions
			explore8(j.shared, []string{strings.Repeat("M", 12), "MSMS"}, D, false, -1, rs)
		}
	})
	nodes, execs, events, distinct, full, lite := 0, 0, 0, 0, 0, 0
	var termFails []core.Failure
	byKey := map[string]*term{}
	for _, i := range hung {
		// the real term runs away without logging an event (the fuel cannot stop it); the reference never does
		termFails = append(termFails, core.Failure{Key: jobs[i].t.String(), Kind: "hang", Detail: "exploration of the term does not terminate within 90 s",
			What: "the real seq term loops without producing an event where the interpreter terminates"})
		byKey[jobs[i].t.String()] = jobs[i].t
		results[i] = res8{distinct: map[string]bool{}}
	}
	if skipped > 0 {
		r.NotExhaustive(fmt.Sprintf("%d terms not explored after 8 runaway executions", skipped))
	}
	for i, rs := range results {
		nodes += rs.nodes
		execs += rs.execs
		events += rs.events
		distinct += len(rs.distinct)
		if jobs[i].lite {
			lite++
		} else {
			full++
		}
		if rs.fail != nil {
			termFails = append(termFails, *rs.fail)
			byKey[rs.fail.Key] = jobs[i].t
		}
		if rs.sample != nil && i%(len(results)/8+1) == 3 {
			r.Sample(rs.sample)
		}
	}
	for _, f := range core.Roots(termFails, func(key string) []string { return reductions8(byKey[key]) }) {
		r.Fail(f)
	}

	// Laws, impl against impl (no reference involved): associativity and units of Combine, Delay transparency.
	lawN := 4
	if tier == "thorough" {
		lawN = 5
	}
	type law struct{ l, rr *term }
	var laws []law
	for na := 1; na <= lawN; na++ {
		for _, a := range enumTerms(na, memo) {
			laws = append(laws,
				law{&term{K: "Combine", A: &term{K: "Normal"}, B: a}, a},
				law{&term{K: "Combine", A: a, B: &term{K: "Normal"}}, a},
				law{&term{K: "DelayQ", A: a}, a})
			for nb := 1; na+nb < lawN; nb++ {
				for _, b := range enumTerms(nb, memo) {
					for nc := 1; na+nb+nc <= lawN; nc++ {
						for _, c := range enumTerms(nc, memo) {
							laws = append(laws, law{
								&term{K: "Combine", A: &term{K: "Combine", A: a, B: b}, B: c},
								&term{K: "Combine", A: a, B: &term{K: "Combine", A: b, B: c}}})
						}
					}
				}
			}
		}
	}
	lawRes := make([]res8, len(laws))
	lawSkipped := make([]bool, len(laws))
	if len(hung) >= 8 {
		// runaway executions are still spinning: the laws would only add more of them
		laws = nil
	}
	lawHung, _ := parallelTimeout(len(laws), 60*time.Second, func(i int) {
		lw := laws[i]
		if spins(lw.l) || spins(lw.rr) {
			lawSkipped[i] = true
			return
		}
		// unit laws: the added Normal leaf must not shift ids, so number the two sides so that
		// shared subterms get equal ids: number the right side, then rebuild the left from it.
		k := 0
		rr := clone(lw.rr, &k)
		var l *term
		switch {
		case lw.l.K == "DelayQ":
			l = &term{K: "DelayQ", A: rr}
		case lw.l.K == "Combine" && lw.l.A.K == "Normal" && lw.l.B == lw.rr:
			l = &term{K: "Combine", A: &term{K: "Normal"}, B: rr}
		case lw.l.K == "Combine" && lw.l.B.K == "Normal" && lw.l.A == lw.rr:
			l = &term{K: "Combine", A: rr, B: &term{K: "Normal"}}
		default:
			k = 0
			l = clone(lw.l, &k)
		}
		rs := &lawRes[i]
		rs.distinct = map[string]bool{}
		for _, ops := range []string{strings.Repeat("M", 8), "MSSM"} {
			work := [][]int{{}}
			for len(work) > 0 {
				pre := work[len(work)-1]
				work = work[:len(work)-1]
				rs.nodes++
				a := runReal8(l, pre, ops, -1, 1)
				b := runReal8(rr, pre, ops, -1, 1)
				rs.execs += 2
				rs.events += a.events
				if !reflect.DeepEqual(a.log, b.log) {
					rs.fail = &core.Failure{
						Key:    l.String() + " == " + rr.String(),
						Kind:   "law-violation",
						Detail: classify8(b.log, a.log),
						What:   "algebraic law of the combinators does not hold on the implementation",
						Replay: map[string]any{"left": l.String(), "right": rr.String(), "consumer": ops, "answers": pre, "left_log": a.log, "right_log": b.log},
					}
					return
				}
				for i := len(pre); i < len(a.choices) && i < 3; i++ {
					for alt := 1; alt < a.arity[i]; alt++ {
						work = append(work, append(append([]int{}, a.choices[:i]...), alt))
					}
				}
			}
		}
	})
	for _, i := range lawHung {
		lawSkipped[i] = true
		r.Fail(core.Failure{Key: laws[i].l.String() + " == " + laws[i].rr.String(), Kind: "hang", Detail: "law instance does not terminate within 60 s",
			What: "a seq term loops without producing an event"})
	}
	lawCount := 0
	for i, rs := range lawRes {
		if i >= len(laws) {
			break
		}
		if lawSkipped[i] {
			continue
		}
		lawCount++
		nodes += rs.nodes
		execs += rs.execs
		events += rs.events
		if rs.fail != nil {
			r.Fail(*rs.fail)
		}
	}
	r.Set("states", nodes)
	r.Set("transitions", events)
	r.Set("traces_validated_against_impl", execs)
	r.Set("terms_full", full)
	r.Set("terms_moveNext_only_no_injection", lite)
	r.Set("terms_pruned_silent_spin", pruned)
	r.Set("sharing_templates", shareN)
	r.Set("law_instances", lawCount)
	r.Set("distinct_observations", distinct)
	r.Set("bounds", map[string]any{"term_size_full": maxFull, "term_size_lite": maxLite, "answer_depth": D, "fuel": fuel8,
		"consumer_strings": "all 16 strings over {MoveNext,Send(7)} of length 4, MoveNext x12, Send x6; re-use: the same Seq started twice", "panic_injection": "every event of every path (full terms)"})
	r.Set("rule", "all combinator terms up to the size bound; for each, DFS over condition answers, every consumer string, a panic injected at every event; a state is (term, consumer string, answer prefix)")
	r.Assume("terms that can spin without logging an event (e.g. Loop(Normal)) are pruned: they have no finite observation; their stack behaviour is C17's subject")
	r.Assume("reference = rtcheck/c08.go exec8 (direct structured-loop interpreter) + consumer8 (consumer model)")
	return r
}

// reductions8: one-step reductions of a term — a subterm replaced by one of its children, or a
// non-Normal leaf replaced by Normal.
func reductions8(t *term) []string {
	var out []string
	var walk func(n *term, rebuild func(*term) *term)
	walk = func(n *term, rebuild func(*term) *term) {
		if n.A == nil {
			if n.K != "Normal" {
				out = append(out, rebuild(&term{K: "Normal"}).String())
			}
			return
		}
		out = append(out, rebuild(n.A).String())
		if n.B != nil {
			out = append(out, rebuild(n.B).String())
		}
		walk(n.A, func(x *term) *term { return rebuild(&term{K: n.K, A: x, B: n.B}) })
		if n.B != nil {
			walk(n.B, func(x *term) *term { return rebuild(&term{K: n.K, A: n.A, B: x}) })
		}
	}
	walk(t, func(x *term) *term { return x })
	return out
}
