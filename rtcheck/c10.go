package rtcheck

import (
	"fmt"
	"math"
	"reflect"
	"sort"
	"strings"

	"github.com/goghcrow/go-co/seq"
	"verif/core"
)

// C10 — the built-in range iterators against Go's own range statement, in the same process, for
// every input of a bounded space.

type kv struct {
	K, V any
}

func fmtPairs(ps []kv) string {
	var sb strings.Builder
	for _, p := range ps {
		fmt.Fprintf(&sb, "(%#v,%#v)", p.K, p.V)
	}
	return sb.String()
}

var alpha10 = []byte{'a', 0xC3, 0xA9, 0xE2, 0x82, 0xAC, 0xF0, 0xFF}

type c10acc struct {
	inputs, steps int
	fails         []core.Failure
	samples       []any
}

func (a *c10acc) fail(kind, key, detail string, replay any) {
	a.fails = append(a.fails, core.Failure{Key: key, Kind: kind, Detail: detail,
		What: "range iterator differs from the native range statement", Replay: replay})
}

// ---- strings
func c10strings(maxLen int, acc *c10acc) {
	buf := make([]byte, 0, maxLen)
	var rec func()
	rec = func() {
		s := string(buf)
		var native, got []kv
		for i, r := range s {
			native = append(native, kv{i, r})
		}
		it := seq.NewStringIter(s)
		for it.MoveNext() {
			p, q := it.Current(), it.Current()
			if p != q {
				acc.fail("string-range", fmt.Sprintf("%q", s), "Current not stable", nil)
			}
			got = append(got, kv{p.Key, p.Val})
			if len(got) > len(s)+2 {
				break
			}
		}
		acc.inputs++
		acc.steps += len(got) + 1
		if acc.inputs%977 == 5 && len(acc.samples) < 3 {
			acc.samples = append(acc.samples, map[string]any{"kind": "string", "input": fmt.Sprintf("%q", s), "pairs": fmtPairs(got)})
		}
		if !reflect.DeepEqual(native, got) {
			acc.fail("string-range", fmt.Sprintf("%q", s), classifyString(s, native, got),
				map[string]any{"input_bytes": []byte(s), "native": fmtPairs(native), "iter": fmtPairs(got)})
		}
		if len(buf) == maxLen {
			return
		}
		for _, b := range alpha10 {
			buf = append(buf, b)
			rec()
			buf = buf[:len(buf)-1]
		}
	}
	rec()
}

func classifyString(s string, native, got []kv) string {
	if len(native) != len(got) {
		return "number of iterations differs"
	}
	for i := range native {
		if native[i].K != got[i].K {
			return "key is not the byte offset"
		}
		if native[i].V != got[i].V {
			return "decoded rune differs"
		}
	}
	return "?"
}

// ---- integers
func c10ints(acc *c10acc) {
	for n := -3; n <= 8; n++ {
		var native, got []kv
		for i := 0; i < n; i++ { // spec: range n produces 0..n-1, nothing for n <= 0
			native = append(native, kv{i, nil})
		}
		it := seq.NewIntegerIter(n)
		for it.MoveNext() {
			got = append(got, kv{it.Current().Key, nil})
			if len(got) > 20 {
				break
			}
		}
		acc.inputs++
		acc.steps += len(got) + 1
		if !reflect.DeepEqual(native, got) {
			acc.fail("int-range", fmt.Sprintf("n=%d", n), "integer range does not produce 0..n-1",
				map[string]any{"n": n, "native": fmtPairs(native), "iter": fmtPairs(got)})
		}
	}
	acc.samples = append(acc.samples, map[string]any{"kind": "int", "input": "n=-3..8"})
}

// ---- slices with mutation scripts
// script letters: n none, a write ahead, b write behind, p append, r reslice to half, g grow by re-assigning a longer slice
var sliceOps = []byte{'n', 'a', 'b', 'p', 'r', 'z'}

func applySliceOp(op byte, s *[]int, i int) {
	switch op {
	case 'a':
		if i+1 < len(*s) {
			(*s)[i+1] = 100 + i
		}
	case 'b':
		if i > 0 && i-1 < len(*s) {
			(*s)[i-1] = 200 + i
		}
	case 'p':
		*s = append(*s, 300+i)
	case 'r':
		*s = (*s)[:len(*s)/2]
	case 'z':
		*s = nil
	}
}

func c10slices(maxLen, scriptLen int, acc *c10acc) {
	type shape struct {
		n, extra int
		isNil    bool
	}
	var shapes []shape
	shapes = append(shapes, shape{0, 0, true})
	for n := 0; n <= maxLen; n++ {
		shapes = append(shapes, shape{n, 0, false}, shape{n, 2, false})
	}
	mk := func(sh shape) []int {
		if sh.isNil {
			return nil
		}
		s := make([]int, sh.n, sh.n+sh.extra)
		for i := range s {
			s[i] = i + 1
		}
		return s
	}
	var scripts []string
	var gen func(cur []byte)
	gen = func(cur []byte) {
		scripts = append(scripts, string(cur))
		if len(cur) == scriptLen {
			return
		}
		for _, o := range sliceOps {
			gen(append(cur, o))
		}
	}
	gen(nil)
	for _, sh := range shapes {
		for _, sc := range scripts {
			if len(sc) > sh.n {
				continue // script steps beyond the number of iterations never run
			}
			var native, got []kv
			s := mk(sh)
			j := 0
			for i, v := range s {
				native = append(native, kv{i, v})
				if j < len(sc) {
					applySliceOp(sc[j], &s, i)
				}
				j++
			}
			nativeFinal := append([]int{}, s...)
			s = mk(sh)
			j = 0
			it := seq.NewSliceIter(s)
			for it.MoveNext() {
				p := it.Current()
				got = append(got, kv{p.Key, p.Val})
				if j < len(sc) {
					applySliceOp(sc[j], &s, p.Key)
				}
				j++
				if j > 20 {
					break
				}
			}
			acc.inputs++
			acc.steps += len(got) + 1
			key := fmt.Sprintf("slice(len=%d,cap+%d,nil=%v) script=%q", sh.n, sh.extra, sh.isNil, sc)
			if acc.inputs%397 == 7 && len(acc.samples) < 6 {
				acc.samples = append(acc.samples, map[string]any{"kind": "slice", "input": key, "pairs": fmtPairs(got)})
			}
			if !reflect.DeepEqual(native, got) || !reflect.DeepEqual(nativeFinal, append([]int{}, s...)) {
				acc.fail("slice-range", key, "slice range differs under mutation script",
					map[string]any{"native": fmtPairs(native), "iter": fmtPairs(got)})
			}
		}
	}
}

// arrays: the rewriter slices the array operand; at runtime level this is NewSliceIter over a[:].
// The array-copy semantics of `range arr` belong to C04 (compiler level).

// ---- maps
func sortPairs(ps []kv) []string {
	out := make([]string, len(ps))
	for i, p := range ps {
		out[i] = fmt.Sprintf("(%#v,%#v)", p.K, p.V)
	}
	sort.Strings(out)
	return out
}

// mapCase runs the iterator over m (panics are reported, not propagated) with a deletion /
// insertion script: at iteration j, scriptDel[j] names a key to delete (or nil-op).
func c10maps(acc *c10acc) {
	type anyMap = map[any]any
	keysAll := []any{"a", "b", "c", nil}
	vals := []any{1, nil}
	// all maps over subsets of keysAll with values from vals
	var maps []anyMap
	for mask := 0; mask < 1<<len(keysAll); mask++ {
		var ks []any
		for i, k := range keysAll {
			if mask>>i&1 == 1 {
				ks = append(ks, k)
			}
		}
		n := len(ks)
		for vm := 0; vm < 1<<n; vm++ {
			m := anyMap{}
			for i, k := range ks {
				m[k] = vals[vm>>i&1]
			}
			maps = append(maps, m)
		}
	}
	maps = append(maps, nil)
	run := func(key string, iterate func(record func(k, v any)) (panicked any), expect []kv, exact bool) {
		var got []kv
		p := iterate(func(k, v any) { got = append(got, kv{k, v}) })
		acc.inputs++
		acc.steps += len(got) + 1
		if p != nil {
			acc.fail("map-range", key, "iterator panics", map[string]any{"panic": fmt.Sprint(p)})
			return
		}
		if exact && !reflect.DeepEqual(sortPairs(expect), sortPairs(got)) {
			acc.fail("map-range", key, "entries differ from the native range (as multisets)",
				map[string]any{"native": sortPairs(expect), "iter": sortPairs(got)})
		}
	}
	guard := func(f func()) (p any) {
		defer func() { p = recover() }()
		f()
		return nil
	}
	for _, m := range maps {
		var native []kv
		for k, v := range m {
			native = append(native, kv{k, v})
		}
		key := fmt.Sprintf("map[any]any%v", sortPairs(native))
		if m == nil {
			key = "map[any]any(nil)"
		}
		run(key, func(rec func(k, v any)) any {
			return guard(func() {
				it := seq.NewMapIter(m)
				n := 0
				for it.MoveNext() {
					p := it.Current()
					rec(p.Key, p.Val)
					if n++; n > 10 {
						break
					}
				}
			})
		}, native, true)
		if len(acc.samples) < 8 && len(m) == 3 {
			acc.samples = append(acc.samples, map[string]any{"kind": "map", "input": key})
		}

		// typed variants: map[string]any and map[string]int over the string keys
		ms, mi := map[string]any{}, map[string]int{}
		for k, v := range m {
			if s, ok := k.(string); ok {
				ms[s] = v
				if v != nil {
					mi[s] = v.(int)
				} else {
					mi[s] = 0
				}
			}
		}
		var nat2, nat3 []kv
		for k, v := range ms {
			nat2 = append(nat2, kv{k, v})
		}
		for k, v := range mi {
			nat3 = append(nat3, kv{k, v})
		}
		run(fmt.Sprintf("map[string]any%v", sortPairs(nat2)), func(rec func(k, v any)) any {
			return guard(func() {
				it := seq.NewMapIter(ms)
				for it.MoveNext() {
					p := it.Current()
					rec(p.Key, p.Val)
				}
			})
		}, nat2, true)
		run(fmt.Sprintf("map[string]int%v", sortPairs(nat3)), func(rec func(k, v any)) any {
			return guard(func() {
				it := seq.NewMapIter(mi)
				for it.MoveNext() {
					p := it.Current()
					rec(p.Key, p.Val)
				}
			})
		}, nat3, true)

		// deletion scripts on map[string]int copies: at iteration j (0-based) delete the
		// lexicographically smallest / largest key not yet produced, or an already produced key.
		// Spec: an entry removed before it is reached is not produced; every other entry exactly once.
		if len(mi) >= 2 {
			for _, at := range []int{0, 1} {
				for _, which := range []string{"min-unseen", "max-unseen", "seen", "all-unseen"} {
					mm := map[string]int{}
					for k, v := range mi {
						mm[k] = v
					}
					seen := map[string]int{}
					deleted := map[string]bool{}
					j := 0
					bad := ""
					p := guard(func() {
						it := seq.NewMapIter(mm)
						for it.MoveNext() {
							pr := it.Current()
							if deleted[pr.Key] {
								bad = "entry deleted before being reached was produced"
							}
							seen[pr.Key]++
							if j == at {
								var unseen []string
								for k := range mm {
									if seen[k] == 0 {
										unseen = append(unseen, k)
									}
								}
								sort.Strings(unseen)
								switch which {
								case "min-unseen":
									if len(unseen) > 0 {
										delete(mm, unseen[0])
										deleted[unseen[0]] = true
									}
								case "max-unseen":
									if len(unseen) > 0 {
										delete(mm, unseen[len(unseen)-1])
										deleted[unseen[len(unseen)-1]] = true
									}
								case "all-unseen":
									for _, k := range unseen {
										delete(mm, k)
										deleted[k] = true
									}
								case "seen":
									delete(mm, pr.Key)
								}
							}
							j++
							if j > 10 {
								break
							}
						}
					})
					acc.inputs++
					acc.steps += j + 1
					key := fmt.Sprintf("map[string]int%v delete %s at iteration %d", sortPairs(nat3), which, at)
					if p != nil {
						acc.fail("map-range", key, "iterator panics", map[string]any{"panic": fmt.Sprint(p)})
						continue
					}
					for k := range mi {
						if !deleted[k] && seen[k] != 1 {
							bad = fmt.Sprintf("entry present throughout produced %d times", seen[k])
						}
					}
					for k, n := range seen {
						if n > 1 {
							bad = fmt.Sprintf("entry %q produced %d times", k, n)
						}
					}
					if bad != "" {
						acc.fail("map-range", key, bad, nil)
					}
				}
			}
		}
	}
}

// ---- maps whose keys are not equal to themselves (NaN) or are structs / arrays / pointers
func c10mapsExotic(acc *c10acc) {
	nan := math.NaN()
	type sk struct {
		F float64
		S string
	}
	x, y := 1, 2
	check := func(key string, native, got []kv, p any) {
		acc.inputs++
		acc.steps += len(got) + 1
		if p != nil {
			acc.fail("map-range", key, "iterator panics", map[string]any{"panic": fmt.Sprint(p)})
			return
		}
		if !reflect.DeepEqual(sortPairs(native), sortPairs(got)) {
			acc.fail("map-range", key, "entries differ from the native range (as multisets)", map[string]any{"native": sortPairs(native), "iter": sortPairs(got)})
		}
	}
	guard := func(f func()) (p any) {
		defer func() { p = recover() }()
		f()
		return nil
	}
	{
		for _, m := range []map[float64]int{{nan: 1}, {nan: 1, math.NaN(): 2}, {nan: 1, 0: 2, math.Inf(1): 3}, {math.Copysign(0, -1): 1}} {
			var native, got []kv
			for k, v := range m {
				native = append(native, kv{fmt.Sprint(k), v})
			}
			p := guard(func() {
				it := seq.NewMapIter(m)
				for it.MoveNext() {
					got = append(got, kv{fmt.Sprint(it.Current().Key), it.Current().Val})
				}
			})
			check(fmt.Sprintf("map[float64]int%v", sortPairs(native)), native, got, p)
		}
	}
	{
		m := map[sk]int{{nan, "a"}: 1, {1, "b"}: 2, {nan, "a"}: 3}
		var native, got []kv
		for k, v := range m {
			native = append(native, kv{fmt.Sprint(k), v})
		}
		p := guard(func() {
			it := seq.NewMapIter(m)
			for it.MoveNext() {
				got = append(got, kv{fmt.Sprint(it.Current().Key), it.Current().Val})
			}
		})
		check("map[struct{float64,string}]int with NaN fields", native, got, p)
	}
	{
		m := map[any]int{nan: 1, [2]float64{nan, 0}: 2, "s": 3, &x: 4, &y: 5, complex(nan, 0): 6}
		var native, got []kv
		for k, v := range m {
			native = append(native, kv{fmt.Sprintf("%T", k), v})
		}
		p := guard(func() {
			it := seq.NewMapIter(m)
			for it.MoveNext() {
				got = append(got, kv{fmt.Sprintf("%T", it.Current().Key), it.Current().Val})
			}
		})
		check("map[any]int with NaN, array-of-NaN, pointer and complex keys", native, got, p)
	}
	{
		// live value reads: a value updated before its entry is reached is seen updated (single other entry => deterministic)
		m := map[int]*int{1: &x}
		var got []kv
		it := seq.NewMapIter(m)
		x = 10
		for it.MoveNext() {
			got = append(got, kv{it.Current().Key, *it.Current().Val})
		}
		x = 1
		check("map[int]*int value updated before iteration", []kv{{1, 10}}, got, nil)
	}
	acc.samples = append(acc.samples, map[string]any{"kind": "map-exotic", "input": "NaN keys (float64, struct field, array element, boxed in any, complex), -0, +Inf, pointer keys"})
}

// ---- channels
func c10chans(acc *c10acc) {
	vals := []int{0, 1, 2}
	var contents [][]int
	var gen func(cur []int)
	gen = func(cur []int) {
		contents = append(contents, append([]int{}, cur...))
		if len(cur) == 3 {
			return
		}
		for _, v := range vals {
			gen(append(cur, v))
		}
	}
	gen(nil)
	for _, content := range contents {
		for _, mode := range []string{"buffered-closed", "unbuffered-producer"} {
			mk := func() chan int {
				if mode == "buffered-closed" {
					ch := make(chan int, len(content)+1)
					for _, v := range content {
						ch <- v
					}
					close(ch)
					return ch
				}
				ch := make(chan int)
				go func() {
					for _, v := range content {
						ch <- v
					}
					close(ch)
				}()
				return ch
			}
			var native, got []kv
			for v := range mk() {
				native = append(native, kv{v, nil})
			}
			it := seq.NewChanIter[int](mk())
			for it.MoveNext() {
				got = append(got, kv{it.Current().Key, nil})
				if len(got) > 10 {
					break
				}
			}
			acc.inputs++
			acc.steps += len(got) + 1
			key := fmt.Sprintf("chan %s %v", mode, content)
			if !reflect.DeepEqual(native, got) {
				acc.fail("chan-range", key, "channel range differs", map[string]any{"native": fmtPairs(native), "iter": fmtPairs(got)})
			}
		}
	}
	// the channel is shared state: what is left in it after k iterations, and what a second reader
	// (the loop body itself) sees, must be what the native range leaves / shows
	for _, content := range contents {
		if len(content) == 0 {
			continue
		}
		mk := func() chan int {
			ch := make(chan int, len(content)+1)
			for _, v := range content {
				ch <- v
			}
			close(ch)
			return ch
		}
		for stop := 1; stop <= len(content); stop++ {
			// break after `stop` iterations, then look at the channel
			ch := mk()
			n := 0
			for range ch {
				n++
				if n == stop {
					break
				}
			}
			nativeLeft := len(ch)
			ch = mk()
			it := seq.NewChanIter[int](ch)
			for n = 0; n < stop && it.MoveNext(); n++ {
			}
			acc.inputs++
			acc.steps += stop
			if len(ch) != nativeLeft {
				acc.fail("chan-range", fmt.Sprintf("chan %v stop after %d", content, stop), "values left in the channel after stopping differ",
					map[string]any{"native_left": nativeLeft, "iter_left": len(ch)})
			}
		}
		// the body receives one more value itself
		var native, got []kv
		ch := mk()
		for v := range ch {
			w, ok := <-ch
			native = append(native, kv{v, fmt.Sprint(w, ok)})
		}
		ch = mk()
		it := seq.NewChanIter[int](ch)
		for it.MoveNext() {
			w, ok := <-ch
			got = append(got, kv{it.Current().Key, fmt.Sprint(w, ok)})
			if len(got) > 10 {
				break
			}
		}
		acc.inputs++
		acc.steps += len(got) + 1
		if !reflect.DeepEqual(native, got) {
			acc.fail("chan-range", fmt.Sprintf("chan %v body receives too", content), "channel range differs when the body also receives",
				map[string]any{"native": fmtPairs(native), "iter": fmtPairs(got)})
		}
	}
	acc.samples = append(acc.samples, map[string]any{"kind": "chan", "input": "every content over {0,1,2} of length <= 3, buffered+closed and unbuffered producer; stop after k iterations and inspect the channel; body receiving as a second reader"})
}

func C10(tier string) *core.Report {
	r := core.NewReport("C10", tier)
	strLen, sliceLen, scriptLen := 4, 4, 4
	if tier == "thorough" {
		strLen, sliceLen, scriptLen = 6, 5, 5
	}
	accs := make([]c10acc, 6)
	parallel(6, func(i int) {
		switch i {
		case 0:
			c10strings(strLen, &accs[0])
		case 1:
			c10ints(&accs[1])
		case 2:
			c10slices(sliceLen, scriptLen, &accs[2])
		case 3:
			c10maps(&accs[3])
		case 4:
			c10chans(&accs[4])
		case 5:
			c10mapsExotic(&accs[5])
		}
	})
	names := []string{"strings", "ints", "slices", "maps", "chans", "maps-exotic"}
	per := map[string]int{}
	for i, a := range accs {
		r.Add("states", a.inputs)
		r.Add("transitions", a.steps)
		r.Add("traces_validated_against_impl", a.inputs)
		per[names[i]] = a.inputs
		// string failures: report the shortest failing input per detail class (roots)
		fs := a.fails
		if names[i] == "strings" {
			fs = core.Roots(fs, func(key string) []string { return stringReductions(key) })
		}
		for _, f := range fs {
			r.Fail(f)
		}
		for _, s := range a.samples {
			r.Sample(s)
		}
	}
	r.Set("inputs_per_kind", per)
	r.Set("bounds", map[string]any{"string_len": strLen, "string_alphabet_bytes": fmt.Sprintf("% X", alpha10), "int_n": "-3..8",
		"slice_len": sliceLen, "slice_script_len": scriptLen, "slice_script_ops": "none, write ahead, write behind, append, reslice to half, set nil",
		"map_keys": "subsets of {a,b,c,nil} with values in {1,nil}; map[any]any, map[string]any, map[string]int; deletion scripts",
		"chan":     "contents over {0,1,2} up to length 3; buffered+closed, unbuffered producer"})
	r.Set("rule", "every input of the bounded space; a state is one (input, mutation script); the oracle is the native range statement over the same value in the same process (multisets and the spec's deletion rules for maps)")
	r.Assume("map iteration order is unspecified: maps are compared as multisets; deletion scripts are chosen relative to what has been produced so that the spec determines the outcome")
	r.Assume("integer reference is the three-clause loop 0..n-1 (the spec's definition of range n); the harness module is go 1.21")
	return r
}

// stringReductions: delete one byte of the quoted string key.
func stringReductions(key string) []string {
	var s string
	if _, err := fmt.Sscanf(key, "%q", &s); err != nil {
		return nil
	}
	var out []string
	for i := 0; i < len(s); i++ {
		out = append(out, fmt.Sprintf("%q", s[:i]+s[i+1:]))
	}
	return out
}
