#!/bin/bash
# ./run_check.sh <id> quick|thorough   — rebuilds the tools against /repo's working tree and runs one check
# ./run_check.sh replay <path>
set -u
cd "$(dirname "$0")"
export GOFLAGS=-mod=mod GOPROXY=off GOSUMDB=off GOTOOLCHAIN=local
mkdir -p bin
if ! { go build -tags verif -o bin/verif ./cmd/verif && go build -tags verif -o bin/drv ./cmd/drv; } 2>bin/build.err; then
  # /repo no longer builds together with the harness: that is a harness-level error, not a verdict
  cat bin/build.err >&2
  echo "HARNESS-ERROR: cannot build bin/verif against /repo" >&2
  exit 2
fi
if [ "$1" = replay ]; then exec bin/verif replay "$2"; fi
exec bin/verif check "$1" --tier "$2"
