package harness

import (
	"encoding/json"
	"fmt"
	"github.com/goghcrow/go-co/seq"
	"io"
	"strings"
	"sync"

	"verif/rt"
)

// ---- C14: all interleavings of k live iterators, each compared with its solo run

type inst struct {
	c   *rt.Ctx
	it  It
	obs []string
}

func mkInst(p *Prog) *inst {
	c := rt.New(nil, 1<<20, -1)
	return &inst{c: c, it: p.Out(c)}
}

func (i *inst) step() {
	before := len(i.c.Log)
	ok := i.it.MoveNext()
	i.obs = append(i.obs, fmt.Sprintf("%v,%d|%s", ok, i.it.Current(), strings.Join(i.c.Log[before:], " ")))
}

func schedules(k, m int) [][]int {
	var res [][]int
	cnt := make([]int, k)
	var rec func(cur []int)
	rec = func(cur []int) {
		if len(cur) == k*m {
			res = append(res, append([]int{}, cur...))
			return
		}
		for i := 0; i < k; i++ {
			if cnt[i] < m {
				cnt[i]++
				rec(append(cur, i))
				cnt[i]--
			}
		}
	}
	rec(nil)
	return res
}

type C14Result struct {
	K, M         int
	Programs     int
	Tuples       int
	Schedules    int // per tuple
	Runs         int
	Steps        int
	Interference []C14Bad
	Sample       []string
}

type C14Bad struct {
	Tuple    []string
	Schedule []int
	Who      int
	Got      []string
	Want     []string
}

func runC14(w io.Writer, progs []Prog, k, m int) {
	res := C14Result{K: k, M: m, Programs: len(progs)}
	solo := map[string][]string{}
	for i := range progs {
		x := mkInst(&progs[i])
		for j := 0; j < m; j++ {
			x.step()
		}
		solo[progs[i].ID] = x.obs
	}
	scheds := schedules(k, m)
	res.Schedules = len(scheds)
	idx := make([]int, k)
	var rec func(d int)
	rec = func(d int) {
		if d == k {
			res.Tuples++
			for _, s := range scheds {
				insts := make([]*inst, k)
				for i := range insts {
					insts[i] = mkInst(&progs[idx[i]])
				}
				for _, who := range s {
					insts[who].step()
				}
				res.Runs++
				res.Steps += len(s)
				for i := range insts {
					want := solo[progs[idx[i]].ID]
					if strings.Join(insts[i].obs, "\n") != strings.Join(want, "\n") && len(res.Interference) < 20 {
						t := make([]string, k)
						for j := range t {
							t[j] = progs[idx[j]].ID
						}
						res.Interference = append(res.Interference, C14Bad{t, s, i, insts[i].obs, want})
					}
				}
			}
			return
		}
		for i := range progs {
			idx[d] = i
			rec(d + 1)
		}
	}
	rec(0)
	if len(progs) > 0 {
		res.Sample = solo[progs[0].ID]
	}
	json.NewEncoder(w).Encode(res)
}

// runC14Race: free-running goroutines, one iterator each, under the race detector (the binary is
// built with -race by the supervisor). Not exhaustive; a supplement.
func runC14Race(w io.Writer, progs []Prog, m, rounds int) {
	bad := 0
	solo := map[string][]string{}
	for i := range progs {
		x := mkInst(&progs[i])
		for j := 0; j < m; j++ {
			x.step()
		}
		solo[progs[i].ID] = x.obs
	}
	for r := 0; r < rounds; r++ {
		var wg sync.WaitGroup
		insts := make([]*inst, 0, 2*len(progs))
		for i := range progs {
			insts = append(insts, mkInst(&progs[i]), mkInst(&progs[i]))
		}
		start := make(chan struct{})
		for _, in := range insts {
			in := in
			wg.Add(1)
			go func() {
				defer wg.Done()
				<-start
				for j := 0; j < m; j++ {
					in.step()
				}
			}()
		}
		close(start)
		wg.Wait()
		for i, in := range insts {
			if strings.Join(in.obs, "\n") != strings.Join(solo[progs[i/2].ID], "\n") {
				bad++
			}
		}
	}
	// the range-iterator constructors of the runtime on degenerate and small inputs: every goroutine
	// makes and drains iterators of its own; equal inputs must not lead to a shared object
	ctors := rangeCtorRuns()
	soloC := make([]string, len(ctors))
	for i, f := range ctors {
		soloC[i] = f()
	}
	for r := 0; r < rounds; r++ {
		var wg sync.WaitGroup
		got := make([]string, 2*len(ctors))
		start := make(chan struct{})
		for i := range got {
			i := i
			wg.Add(1)
			go func() {
				defer wg.Done()
				<-start
				got[i] = ctors[i/2]()
			}()
		}
		close(start)
		wg.Wait()
		for i := range got {
			if got[i] != soloC[i/2] {
				bad++
			}
		}
	}
	fmt.Fprintf(w, "{\"rounds\":%d,\"goroutines\":%d,\"mismatches\":%d}\n", rounds, 2*len(progs)+2*len(ctors), bad)
}

func drainPairs[K any](it seq.Iterator[K]) string {
	var sb strings.Builder
	for n := 0; n < 8 && it.MoveNext(); n++ {
		fmt.Fprint(&sb, it.Current(), " ")
	}
	// (the range iterators are only ever advanced until the first false: no further call here)
	return sb.String()
}

func rangeCtorRuns() []func() string {
	var out []func() string
	for _, n := range []int{0, -3, 3} {
		n := n
		out = append(out, func() string {
			return drainPairs(seq.NewIntegerIter(n))
		})
	}
	for _, s := range []string{"", "ab"} {
		s := s
		out = append(out, func() string {
			return drainPairs(seq.NewStringIter(s))
		})
	}
	for _, sl := range [][]int{nil, {}, {1, 2}} {
		sl := sl
		out = append(out, func() string {
			return drainPairs(seq.NewSliceIter(sl))
		})
	}
	for _, m := range []map[int]int{nil, {}, {1: 1}} {
		m := m
		out = append(out, func() string {
			return drainPairs(seq.NewMapIter(m))
		})
	}
	for _, k := range []int{0, 2} {
		k := k
		out = append(out, func() string {
			ch := make(chan int, k)
			for i := 0; i < k; i++ {
				ch <- i
			}
			close(ch)
			return drainPairs(seq.NewChanIter[int](ch))
		})
	}
	return out
}

// ---- C17: stack depth samples of one drain

type C17Result struct {
	ID     string
	Params []int
	Yields int
	At     []int
	Depth  []int
}

func runC17(w io.Writer, p *Prog, params []int) {
	c := rt.New(nil, 1<<40, -1)
	c.Params = params
	it := p.Out(c)
	n := 0
	for it.MoveNext() {
		n++
	}
	json.NewEncoder(w).Encode(C17Result{ID: p.ID, Params: params, Yields: n, At: c.ProbeAt, Depth: c.ProbeDepth})
}
