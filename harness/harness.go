// Package harness is the explorer that runs inside a shard's worker binary: stateless DFS with
// replay over the answer vector, a panic injected at every event of every path, and comparison
// of the marked logs of the go-co output with the reference (and with the unoptimised stage).
package harness

import (
	"bufio"
	"encoding/json"
	"flag"
	"fmt"
	"os"
	"reflect"
	"runtime/debug"
	"strings"
	"sync/atomic"
	"time"

	"verif/rt"
)

type It interface {
	MoveNext() bool
	Current() int
}

// Prog is one registered program. Exactly one of the Gen*/Proc* groups is set.
type Prog struct {
	ID  string
	Key string
	// generator programs: the driver pulls the iterator
	Out, Ref, Tmp func(*rt.Ctx) It
	// procedure programs: the program consumes its own generators and logs
	POut, PRef, PTmp func(*rt.Ctx)
}

type Failure struct {
	Class   string   `json:"class"` // values | lockstep | panic | opt | nondet
	Ans     []int    `json:"ans"`
	PanicAt int      `json:"panic_at"`
	Ref     []string `json:"ref"`
	Out     []string `json:"out"`
	Detail  string   `json:"detail"`
}

type Result struct {
	ID       string    `json:"id"`
	Nodes    int       `json:"nodes"`
	Execs    int       `json:"execs"`
	Events   int       `json:"events"`
	Distinct int       `json:"distinct"`
	Capped   bool      `json:"capped,omitempty"`
	Fatal    string    `json:"fatal,omitempty"` // hang | crash (written by the supervisor side)
	Fails    []Failure `json:"fails,omitempty"`
	Sample   []string  `json:"sample,omitempty"`
	SampleA  []int     `json:"sample_ans,omitempty"`
}

type cfg struct {
	D, F, H, Cap int
	Inject       bool
}

// progress is the time of the last completed execution; the watchdog fires only when a single
// execution does not finish (a slow but advancing exploration is not a hang).
var progress atomic.Int64

func runOne(p *Prog, side int, ans []int, panicAt int, cf cfg) (log []string, choices, arity []int, events int) {
	defer progress.Store(time.Now().UnixNano())
	c := rt.New(ans, cf.F, panicAt)
	defer c.KillAll()
	func() {
		// a completion flag, not recover() != nil: under GODEBUG=panicnil=1 a panic(nil) recovers as nil
		completed := false
		defer func() {
			if r := recover(); !completed {
				c.Mark(fmt.Sprintf("PANIC %#v", r))
			}
		}()
		if p.Out != nil {
			f := p.Out
			switch side {
			case 1:
				f = p.Ref
			case 2:
				f = p.Tmp
			}
			c.Mark("CALL>")
			it := f(c)
			c.Mark("CALL<")
			// peeking at an unstarted iterator is part of the protocol and must run nothing
			c.Mark("CUR>")
			v0 := it.Current()
			c.Mark(fmt.Sprintf("CUR<%d", v0))
			exhausted := 0
			for k := 0; k < cf.H && exhausted < 3; k++ {
				c.Mark(fmt.Sprintf("MN>%d", k))
				ok := it.MoveNext()
				v, v2 := it.Current(), it.Current()
				c.Mark(fmt.Sprintf("MN<%d,%v,%d,%v", k, ok, v, v == v2))
				if !ok {
					exhausted++
				}
			}
			completed = true
			return
		}
		f := p.POut
		switch side {
		case 1:
			f = p.PRef
		case 2:
			f = p.PTmp
		}
		c.Mark("CALL>")
		f(c)
		c.Mark("CALL<")
		completed = true
	}()
	return c.Log, c.Choices, c.Arity, c.Events()
}

// projections ------------------------------------------------------------

// values keeps only what the consumer is handed: the MN< records and a final PANIC record.
func values(log []string) []string {
	var out []string
	for _, s := range log {
		if strings.HasPrefix(s, "MN<") || strings.HasPrefix(s, "PANIC") {
			out = append(out, s)
		}
	}
	return out
}

// panicView: the MN< records before the panic, the consumer call the panic came out of and its value.
func panicView(log []string) []string {
	var out []string
	last := "before-first-call"
	for _, s := range log {
		switch {
		case strings.HasPrefix(s, "MN>"), s == "CALL>", s == "CALL<":
			last = s
		case strings.HasPrefix(s, "MN<"):
			out = append(out, s)
			last = s
		case strings.HasPrefix(s, "PANIC"):
			out = append(out, "in "+last+": "+s)
		}
	}
	return out
}

func hasPanic(log []string) bool {
	for _, s := range log {
		if strings.HasPrefix(s, "PANIC") && !strings.Contains(s, "rt.Fuel") {
			return true
		}
	}
	return false
}

func cls(s string) string {
	for i, ch := range s {
		if ch >= '0' && ch <= '9' || ch == '<' || ch == '=' || ch == '>' || ch == ' ' {
			if ch == '<' || ch == '>' {
				return s[:i+1]
			}
			return s[:i]
		}
	}
	return s
}

// Classify names the first differing record by class, so one defect has one detail whatever ids are involved.
func Classify(ref, out []string) string {
	n := len(ref)
	if len(out) < n {
		n = len(out)
	}
	for i := 0; i < n; i++ {
		if ref[i] != out[i] {
			a, b := cls(ref[i]), cls(out[i])
			if a == b {
				if a == "MN<" {
					// same record kind: say which field differs (ok / value / stability)
					fa, fb := strings.Split(ref[i], ","), strings.Split(out[i], ",")
					if len(fa) == 4 && len(fb) == 4 {
						switch {
						case fa[1] != fb[1]:
							return "MN< ok differs (reference " + fa[1] + ")"
						case fa[2] != fb[2]:
							return "MN< value differs"
						default:
							return "Current not stable"
						}
					}
				}
				return a + " differs"
			}
			return "reference " + a + " vs impl " + b
		}
	}
	if len(ref) > n {
		return "impl log ends early; reference continues with " + cls(ref[n])
	}
	if len(out) > n {
		return "impl log continues with " + cls(out[n])
	}
	return "equal"
}

func explore(p *Prog, cf cfg) Result {
	res := Result{ID: p.ID}
	distinct := map[string]bool{}
	seen := map[string]bool{} // failure classes already recorded
	record := func(class string, ans []int, panicAt int, ref, out []string) {
		if seen[class] {
			return
		}
		seen[class] = true
		res.Fails = append(res.Fails, Failure{Class: class, Ans: append([]int{}, ans...), PanicAt: panicAt,
			Ref: ref, Out: out, Detail: Classify(ref, out)})
	}
	hasTmp := p.Tmp != nil || p.PTmp != nil
	// the first path is executed twice on both sides and must reproduce
	{
		a, _, _, _ := runOne(p, 0, nil, -1, cf)
		b, _, _, _ := runOne(p, 0, nil, -1, cf)
		if !reflect.DeepEqual(a, b) {
			record("nondet", nil, -1, a, b)
			return res
		}
		a, _, _, _ = runOne(p, 1, nil, -1, cf)
		b, _, _, _ = runOne(p, 1, nil, -1, cf)
		if !reflect.DeepEqual(a, b) {
			record("nondet-ref", nil, -1, a, b)
			return res
		}
	}
	compare := func(pre []int, panicAt int, rl, ol, tl []string) {
		if !reflect.DeepEqual(rl, ol) {
			if panicAt < 0 {
				record("lockstep", pre, panicAt, rl, ol)
				if rv, ov := values(rl), values(ol); !reflect.DeepEqual(rv, ov) {
					record("values", pre, panicAt, rv, ov)
				}
				// a panic raised by the program itself (not injected) that surfaces differently
				if hasPanic(rl) || hasPanic(ol) {
					if rv, ov := panicView(rl), panicView(ol); !reflect.DeepEqual(rv, ov) {
						record("panic", pre, panicAt, rv, ov)
					}
				}
			} else {
				if rv, ov := panicView(rl), panicView(ol); !reflect.DeepEqual(rv, ov) {
					record("panic", pre, panicAt, rv, ov)
				} else {
					record("lockstep-under-panic", pre, panicAt, rl, ol)
				}
			}
		}
		if tl != nil && !reflect.DeepEqual(tl, ol) {
			record("opt", pre, panicAt, tl, ol)
		}
	}
	work := [][]int{{}}
	for len(work) > 0 {
		if res.Nodes >= cf.Cap {
			res.Capped = true
			break
		}
		pre := work[len(work)-1]
		work = work[:len(work)-1]
		res.Nodes++
		rl, ch, ar, ev := runOne(p, 1, pre, -1, cf)
		ol, _, _, _ := runOne(p, 0, pre, -1, cf)
		var tl []string
		if hasTmp {
			tl, _, _, _ = runOne(p, 2, pre, -1, cf)
		}
		res.Execs++
		res.Events += ev
		distinct[strings.Join(rl, ";")] = true
		if res.Sample == nil && (len(pre) >= 2 || len(work) == 0) {
			res.Sample, res.SampleA = rl, pre
		}
		compare(pre, -1, rl, ol, tl)
		for i := len(pre); i < len(ch) && i < cf.D; i++ {
			for alt := 1; alt < ar[i]; alt++ {
				work = append(work, append(append([]int{}, ch[:i]...), alt))
			}
		}
		if cf.Inject && (len(res.Fails) == 0 || !seen["panic"] && res.Nodes <= 8) {
			for j := 0; j < ev; j++ {
				rp, _, _, _ := runOne(p, 1, pre, j, cf)
				op, _, _, _ := runOne(p, 0, pre, j, cf)
				var tp []string
				if hasTmp {
					tp, _, _, _ = runOne(p, 2, pre, j, cf)
				}
				res.Execs++
				res.Events += j + 1
				compare(pre, j, rp, op, tp)
			}
		}
	}
	// every failure is re-executed five times before it is believed
	for i := range res.Fails {
		f := &res.Fails[i]
		for k := 0; k < 5; k++ {
			rl, _, _, _ := runOne(p, 1, f.Ans, f.PanicAt, cf)
			ol, _, _, _ := runOne(p, 0, f.Ans, f.PanicAt, cf)
			var a, b []string
			switch f.Class {
			case "values":
				a, b = values(rl), values(ol)
			case "panic":
				a, b = panicView(rl), panicView(ol)
			case "opt":
				tl, _, _, _ := runOne(p, 2, f.Ans, f.PanicAt, cf)
				a, b = tl, ol
			default:
				a, b = rl, ol
			}
			if !reflect.DeepEqual(a, f.Ref) || !reflect.DeepEqual(b, f.Out) {
				f.Class = "nondet"
				break
			}
		}
	}
	res.Distinct = len(distinct)
	return res
}

// Run is the worker's main: explores programs [from,to) and writes one JSON line per program.
// A line "BEGIN <id>" precedes each program so that the supervisor can attribute a crash or hang.
func Run(progs []Prog) {
	var cf cfg
	from := flag.Int("from", 0, "first program index")
	only := flag.String("only", "", "explore only this program id")
	flag.IntVar(&cf.D, "D", 6, "answer depth")
	flag.IntVar(&cf.F, "F", 48, "event fuel")
	flag.IntVar(&cf.H, "H", 24, "max consumer calls")
	flag.IntVar(&cf.Cap, "cap", 20000, "per-program DFS node cap")
	flag.BoolVar(&cf.Inject, "inject", true, "inject a panic at every event")
	perProg := flag.Duration("timeout", 120*time.Second, "per-program watchdog")
	replayAns := flag.String("ans", "", "replay: comma separated answers (with -only)")
	replayPanic := flag.Int("panicat", -1, "replay: event index to panic at")
	mode := flag.String("mode", "explore", "explore | c14 | c14race | c17")
	kFlag := flag.Int("k", 2, "c14: live iterators")
	mFlag := flag.Int("m", 3, "c14: advances per iterator")
	rounds := flag.Int("rounds", 50, "c14race: rounds")
	params := flag.String("params", "", "c17: comma separated parameters")
	flag.Parse()
	debug.SetMaxStack(256 << 20)
	w := bufio.NewWriter(os.Stdout)
	defer w.Flush()
	switch *mode {
	case "c14":
		runC14(w, progs, *kFlag, *mFlag)
		return
	case "c14race":
		runC14Race(w, progs, *mFlag, *rounds)
		return
	case "c17":
		debug.SetMaxStack(1 << 30)
		var ps []int
		for _, s := range strings.Split(*params, ",") {
			if s != "" {
				var v int
				fmt.Sscan(s, &v)
				ps = append(ps, v)
			}
		}
		for i := range progs {
			if progs[i].ID == *only {
				runC17(w, &progs[i], ps)
			}
		}
		return
	}
	enc := json.NewEncoder(w)
	for i := *from; i < len(progs); i++ {
		p := &progs[i]
		if *only != "" && p.ID != *only {
			continue
		}
		if *only != "" && (*replayAns != "" || *replayPanic >= 0 || flag.NArg() > 0) {
			var ans []int
			for _, s := range strings.Split(*replayAns, ",") {
				if s != "" {
					var v int
					fmt.Sscan(s, &v)
					ans = append(ans, v)
				}
			}
			rl, _, _, _ := runOne(p, 1, ans, *replayPanic, cf)
			ol, _, _, _ := runOne(p, 0, ans, *replayPanic, cf)
			fmt.Fprintf(w, "reference:\n  %s\nimpl:\n  %s\n", strings.Join(rl, "\n  "), strings.Join(ol, "\n  "))
			continue
		}
		fmt.Fprintf(w, "BEGIN %d %s\n", i, p.ID)
		w.Flush()
		done := make(chan Result, 1)
		progress.Store(time.Now().UnixNano())
		go func() { done <- explore(p, cf) }()
	wait:
		for {
			select {
			case r := <-done:
				enc.Encode(r)
				break wait
			case <-time.After(time.Second):
				if time.Since(time.Unix(0, progress.Load())) > *perProg {
					fmt.Fprintf(w, "HANG %d %s\n", i, p.ID)
					w.Flush()
					os.Exit(3)
				}
			}
		}
	}
}
