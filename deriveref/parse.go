package deriveref

import (
	"go/ast"
	"go/parser"
)

func parserParseExpr(s string) (ast.Expr, error) { return parser.ParseExpr(s) }
