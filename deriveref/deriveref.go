// Package deriveref turns a hand-written (or template-generated) go-co source package into its
// reference: the same Go text running on the refco coroutine. It adds no semantics of its own —
// it only spells out what the language cannot express without the compiler:
//
//	generator function body  -> return refco.New(c, func(y *refco.Y[T]) { body })
//	Yield(e) / YieldFrom(e)  -> y.Yield(e) / y.YieldFrom(e)
//	return nil               -> return
//	co.Iter[T]               -> refco.Iter[T]
//	for v := range <Iter>    -> the pull loop of C06 (operand evaluated once, MoveNext, bind, body in its own scope)
package deriveref

import (
	"bytes"
	"fmt"
	"go/ast"
	"go/format"
	"go/token"
	"go/types"
	"os"
	"path/filepath"
	"strconv"
	"strings"

	"golang.org/x/tools/go/ast/astutil"
	"golang.org/x/tools/go/packages"
)

const coPath = "github.com/goghcrow/go-co"

// Dir loads the package in srcDir (inside module rooted at modDir) and writes the derived
// reference package (package name pkgName) into dstDir.
func Dir(modDir, srcDir, dstDir, pkgName string, env []string) error {
	cfg := &packages.Config{
		Mode: packages.NeedName | packages.NeedFiles | packages.NeedSyntax | packages.NeedTypes | packages.NeedTypesInfo | packages.NeedImports | packages.NeedDeps,
		Dir:  modDir,
		Env:  env,
	}
	rel, err := filepath.Rel(modDir, srcDir)
	if err != nil {
		return err
	}
	pkgs, err := packages.Load(cfg, "./"+rel)
	if err != nil {
		return err
	}
	if len(pkgs) != 1 {
		return fmt.Errorf("deriveref: expected one package in %s, got %d", srcDir, len(pkgs))
	}
	p := pkgs[0]
	if len(p.Errors) > 0 {
		return fmt.Errorf("deriveref: source package does not type-check: %v", p.Errors[0])
	}
	os.MkdirAll(dstDir, 0o755)
	for i, f := range p.Syntax {
		d := &deriver{fset: p.Fset, info: p.TypesInfo, pkg: p.Types}
		d.file(f, pkgName)
		var buf bytes.Buffer
		if err := format.Node(&buf, p.Fset, f); err != nil {
			return fmt.Errorf("deriveref: printing file %d: %v", i, err)
		}
		name := filepath.Base(p.Fset.File(f.Pos()).Name())
		if err := os.WriteFile(filepath.Join(dstDir, name), buf.Bytes(), 0o644); err != nil {
			return err
		}
	}
	return nil
}

type deriver struct {
	fset *token.FileSet
	info *types.Info
	pkg  *types.Package
	n    int
}

func (d *deriver) isCoObj(obj types.Object, name string) bool {
	return obj != nil && obj.Pkg() != nil && obj.Pkg().Path() == coPath && obj.Name() == name
}

// callee returns the go-co API function called by call ("Yield", "YieldFrom") or "".
func (d *deriver) callee(call *ast.CallExpr) string {
	fun := call.Fun
	if ix, ok := fun.(*ast.IndexExpr); ok { // Yield[int](x)
		fun = ix.X
	}
	var id *ast.Ident
	switch f := fun.(type) {
	case *ast.Ident:
		id = f
	case *ast.SelectorExpr:
		id = f.Sel
	default:
		return ""
	}
	obj := d.info.Uses[id]
	for _, n := range []string{"Yield", "YieldFrom"} {
		if d.isCoObj(obj, n) {
			return n
		}
	}
	return ""
}

func (d *deriver) isIterType(t types.Type) bool {
	n, ok := t.(*types.Named)
	return ok && d.isCoObj(n.Obj(), "Iter")
}

// yieldsDirectly: body calls Yield/YieldFrom outside nested function literals.
func (d *deriver) yieldsDirectly(body *ast.BlockStmt) bool {
	found := false
	ast.Inspect(body, func(n ast.Node) bool {
		switch n := n.(type) {
		case *ast.FuncLit:
			return false
		case *ast.CallExpr:
			if d.callee(n) != "" {
				found = true
			}
		}
		return !found
	})
	return found
}

func sel(x, s string) ast.Expr { return &ast.SelectorExpr{X: ast.NewIdent(x), Sel: ast.NewIdent(s)} }

func (d *deriver) file(f *ast.File, pkgName string) {
	f.Name = ast.NewIdent(pkgName)
	// 1. range over iterators (needs type info of the original nodes, so do it first, innermost first)
	astutil.Apply(f, nil, func(c *astutil.Cursor) bool {
		if rs, ok := c.Node().(*ast.RangeStmt); ok {
			if tv, ok := d.info.Types[rs.X]; ok && d.isIterType(tv.Type) {
				c.Replace(d.lowerRange(rs))
			}
		}
		return true
	})
	// 2. generator functions, outermost first so that nested literals get their own y
	var visit func(n ast.Node)
	visit = func(n ast.Node) {
		ast.Inspect(n, func(n ast.Node) bool {
			switch fn := n.(type) {
			case *ast.FuncDecl:
				if fn.Body != nil && d.yieldsDirectly(fn.Body) {
					d.generator(fn.Type, fn.Body, visit)
					return false
				}
			case *ast.FuncLit:
				if d.yieldsDirectly(fn.Body) {
					d.generator(fn.Type, fn.Body, visit)
					return false
				}
			}
			return true
		})
	}
	visit(f)
	// 3. the iterator type everywhere
	astutil.Apply(f, nil, func(c *astutil.Cursor) bool {
		if ix, ok := c.Node().(*ast.IndexExpr); ok {
			var id *ast.Ident
			switch x := ix.X.(type) {
			case *ast.Ident:
				id = x
			case *ast.SelectorExpr:
				id = x.Sel
			}
			if id != nil && d.isCoObj(d.info.Uses[id], "Iter") {
				ix.X = sel("refco", "Iter")
			}
		}
		return true
	})
	// 4. imports
	for _, imp := range f.Imports {
		if p, _ := strconv.Unquote(imp.Path.Value); p == coPath {
			name := ""
			if imp.Name != nil {
				name = imp.Name.Name
			}
			if name != "" {
				astutil.DeleteNamedImport(d.fset, f, name, coPath)
			} else {
				astutil.DeleteImport(d.fset, f, coPath)
			}
		}
	}
	used := false
	ast.Inspect(f, func(n ast.Node) bool {
		if se, ok := n.(*ast.SelectorExpr); ok {
			if id, ok := se.X.(*ast.Ident); ok && id.Name == "refco" {
				used = true
			}
		}
		return !used
	})
	if used {
		astutil.AddImport(d.fset, f, "verif/refco")
	}
}

// generator rewrites one generator function in place and continues the traversal inside it.
func (d *deriver) generator(ft *ast.FuncType, body *ast.BlockStmt, visit func(ast.Node)) {
	var elem ast.Expr = ast.NewIdent("int")
	if ft.Results != nil && len(ft.Results.List) == 1 {
		if ix, ok := ft.Results.List[0].Type.(*ast.IndexExpr); ok {
			elem = ix.Index
		}
	}
	// own level: yields and returns
	var own func(n ast.Node) bool
	own = func(n ast.Node) bool {
		switch n := n.(type) {
		case *ast.FuncLit:
			return false // handled below by visit (nested generator) or left alone (plain closure)
		case *ast.CallExpr:
			if name := d.callee(n); name != "" {
				n.Fun = sel("y", name)
			}
		}
		return true
	}
	ast.Inspect(body, own)
	astutil.Apply(body, func(c *astutil.Cursor) bool {
		_, isLit := c.Node().(*ast.FuncLit)
		return !isLit
	}, func(c *astutil.Cursor) bool {
		if rs, ok := c.Node().(*ast.ReturnStmt); ok {
			if len(rs.Results) == 1 {
				if id, ok := rs.Results[0].(*ast.Ident); !ok || id.Name != "nil" {
					// go-co evaluates and ignores a non-nil result
					c.InsertBefore(&ast.AssignStmt{Lhs: []ast.Expr{ast.NewIdent("_")}, Tok: token.ASSIGN, Rhs: rs.Results})
				}
			}
			c.Replace(&ast.ReturnStmt{})
		}
		return true
	})
	// nested functions
	for _, st := range body.List {
		visit(st)
	}
	ctx := ast.Expr(ast.NewIdent("nil"))
	if d.ctxInScope(ft, body) {
		ctx = ast.NewIdent("c")
	}
	inner := &ast.FuncLit{
		Type: &ast.FuncType{Params: &ast.FieldList{List: []*ast.Field{{
			Names: []*ast.Ident{ast.NewIdent("y")},
			Type:  &ast.StarExpr{X: &ast.IndexExpr{X: sel("refco", "Y"), Index: elem}},
		}}}},
		Body: &ast.BlockStmt{List: body.List},
	}
	// named results (`(_ Iter[T])` + bare return) become an ordinary result
	if ft.Results != nil {
		for _, fl := range ft.Results.List {
			fl.Names = nil
		}
	}
	body.List = []ast.Stmt{&ast.ReturnStmt{Results: []ast.Expr{
		&ast.CallExpr{Fun: &ast.IndexExpr{X: sel("refco", "New"), Index: elem}, Args: []ast.Expr{ctx, inner}},
	}}}
}

// ctxInScope: an identifier c of type *rt.Ctx is visible in the function body.
func (d *deriver) ctxInScope(ft *ast.FuncType, body *ast.BlockStmt) bool {
	sc := d.info.Scopes[ft]
	if sc == nil {
		return false
	}
	_, obj := sc.LookupParent("c", body.Pos())
	if obj == nil {
		return false
	}
	return strings.HasSuffix(obj.Type().String(), "rt.Ctx")
}

// lowerRange: for k tok range X { B }  (X an iterator)
//
//	tok ":=" (go < 1.22: one variable per loop):  { var k T; for it := X; it.MoveNext(); { k = it.Current(); { B } } }
//	tok "=" :                                     for it := X; it.MoveNext(); { k = it.Current(); { B } }
//	no variable:                                  for it := X; it.MoveNext(); { { B } }
func (d *deriver) lowerRange(rs *ast.RangeStmt) ast.Stmt {
	d.n++
	it := ast.NewIdent("it۰" + strconv.Itoa(d.n))
	call := func(m string) ast.Expr {
		return &ast.CallExpr{Fun: &ast.SelectorExpr{X: it, Sel: ast.NewIdent(m)}}
	}
	var stmts []ast.Stmt
	hasKey := rs.Key != nil
	if id, ok := rs.Key.(*ast.Ident); ok && id.Name == "_" {
		hasKey = false
	}
	if hasKey {
		stmts = append(stmts, &ast.AssignStmt{Lhs: []ast.Expr{rs.Key}, Tok: token.ASSIGN, Rhs: []ast.Expr{call("Current")}})
	}
	stmts = append(stmts, rs.Body)
	loop := &ast.ForStmt{
		Init: &ast.AssignStmt{Lhs: []ast.Expr{it}, Tok: token.DEFINE, Rhs: []ast.Expr{rs.X}},
		Cond: call("MoveNext"),
		Body: &ast.BlockStmt{List: stmts},
	}
	if hasKey && rs.Tok == token.DEFINE {
		elem := d.elemType(rs.X)
		decl := &ast.DeclStmt{Decl: &ast.GenDecl{Tok: token.VAR, Specs: []ast.Spec{
			&ast.ValueSpec{Names: []*ast.Ident{rs.Key.(*ast.Ident)}, Type: elem},
		}}}
		use := &ast.AssignStmt{Lhs: []ast.Expr{ast.NewIdent("_")}, Tok: token.ASSIGN, Rhs: []ast.Expr{ast.NewIdent(rs.Key.(*ast.Ident).Name)}}
		return &ast.BlockStmt{List: []ast.Stmt{decl, use, loop}}
	}
	return loop
}

// elemType renders the element type of an iterator-typed expression as source text.
func (d *deriver) elemType(x ast.Expr) ast.Expr {
	t := d.info.Types[x].Type.(*types.Named)
	arg := t.TypeArgs().At(0)
	s := types.TypeString(arg, func(p *types.Package) string {
		if p == d.pkg {
			return ""
		}
		return p.Name()
	})
	s = strings.ReplaceAll(s, "co.Iter[", "refco.Iter[")
	e, err := parseExpr(s)
	if err != nil {
		return ast.NewIdent("any")
	}
	return e
}

func parseExpr(s string) (ast.Expr, error) { return parserParseExpr(s) }
