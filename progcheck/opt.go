package progcheck

// OptFamilies: families aimed at the optimiser (ETA, IMPORT); filled in by eta.go.
var OptFamilies = func(tier string) []*FamilySpec { return nil }
