package progcheck

import (
	"fmt"
	"strings"

	"verif/pipeline"
)

// PANICVAL family (C18, C02): a panic with every kind of value (nil and typed-nil included, runtime
// errors, errors, plain values) x every position of the panicking expression in a generator. The
// worker runs with GODEBUG panicnil=1 - what a main module with a go directive below 1.21 gets -
// so that panic(nil) really carries nil: any recover-and-re-raise in the runtime that tests the
// recovered value against nil swallows it.
//
//	value | position

var panicValues = []string{"nil", "nilerror", "string", "int", "error", "nilmap", "index", "nilderef", "divzero", "assert", "closenil", "repanic"}
var panicPositions = []string{"first", "afteryield", "inloop", "delegate", "incase", "consumerbody", "cond", "operand", "post", "deferred", "rangearrkey", "rangearrkv", "rangeslice", "yieldfromarg"}

const panicExtra = `package src

import (
	"errors"

	"verif/rt"
)

var errBoom = errors.New("boom")

func boomArr(c *rt.Ctx, k int) [2]int { return [2]int{boom(c, k), 7} }

func boomSlice(c *rt.Ctx, k int) []int { return []int{boom(c, k), 7} }

func boomIter[T any](c *rt.Ctx, k int, it T) T { boom(c, k); return it }

// boom panics with the value of kind k if the environment says so, and returns k otherwise
func boom(c *rt.Ctx, k int) int {
	c.E(50)
	if !c.B(51) {
		return k
	}
	switch k {
	case 0:
		panic(nil)
	case 1:
		var err error
		panic(err)
	case 2:
		panic("boom")
	case 3:
		panic(42)
	case 4:
		panic(errBoom)
	case 5:
		var m map[int]int
		m[1] = 1
	case 6:
		var s []int
		_ = s[k]
	case 7:
		var p *int
		_ = *p
	case 8:
		z := 0
		_ = k / z
	case 9:
		var a any = "s"
		_ = a.(int)
	case 10:
		var ch chan int
		close(ch)
	case 11:
		func() {
			defer func() { panic(recover()) }()
			panic("inner")
		}()
	}
	return k
}
`

func panicText(id string, k int, pos string) string {
	var sb strings.Builder
	w := func(ind int, f string, a ...any) {
		sb.WriteString(strings.Repeat("\t", ind) + fmt.Sprintf(f, a...) + "\n")
	}
	b := fmt.Sprintf("boom(c, %d)", k)
	w(0, "func %s_sub(c *rt.Ctx) Iter[int] {", id)
	w(1, "Yield(c.W(30, 1))")
	if pos == "delegate" {
		w(1, "%s", b)
	}
	w(1, "Yield(c.W(31, 2))")
	w(1, "return nil")
	w(0, "}")
	w(0, "")
	w(0, "func %s_gen(c *rt.Ctx) Iter[int] {", id)
	switch pos {
	case "first":
		w(1, "%s", b)
		w(1, "Yield(c.W(1, 1))")
	case "afteryield":
		w(1, "Yield(c.W(1, 1))")
		w(1, "%s", b)
		w(1, "Yield(c.W(2, 2))")
	case "inloop":
		w(1, "for i := 0; i < 2; i++ {")
		w(2, "Yield(c.W(1, i))")
		w(2, "%s", b)
		w(1, "}")
	case "delegate":
		w(1, "Yield(c.W(1, 1))")
		w(1, "YieldFrom(%s_sub(c))", id)
		w(1, "Yield(c.W(2, 2))")
	case "incase":
		w(1, "switch c.I(3) {")
		w(1, "case 0:")
		w(2, "Yield(c.W(1, 1))")
		w(2, "%s", b)
		w(1, "default:")
		w(2, "%s", b)
		w(2, "Yield(c.W(2, 2))")
		w(1, "}")
		w(1, "Yield(c.W(4, 4))")
	case "consumerbody":
		w(1, "for v := range %s_sub(c) {", id)
		w(2, "%s", b)
		w(2, "Yield(c.W(1, v))")
		w(1, "}")
	case "cond":
		w(1, "for i := 0; i < 2 && %s >= 0; i++ {", b)
		w(2, "Yield(c.W(1, i))")
		w(1, "}")
	case "operand":
		w(1, "Yield(c.W(1, 1))")
		w(1, "Yield(%s)", b)
		w(1, "Yield(c.W(2, 2))")
	case "post":
		w(1, "for i := 0; i < 2; i += 1 + 0*%s {", b)
		w(2, "Yield(c.W(1, i))")
		w(1, "}")
	case "rangearrkey": // key-only range over an array-valued call: the operand is still evaluated once
		w(1, "Yield(c.W(1, 1))")
		w(1, "for i := range boomArr(c, %d) {", k)
		w(2, "Yield(c.W(2, i))")
		w(1, "}")
	case "rangearrkv":
		w(1, "Yield(c.W(1, 1))")
		w(1, "for i, v := range boomArr(c, %d) {", k)
		w(2, "Yield(c.W(2, i+v))")
		w(1, "}")
	case "rangeslice":
		w(1, "Yield(c.W(1, 1))")
		w(1, "for range boomSlice(c, %d) {", k)
		w(2, "Yield(c.W(2, 0))")
		w(1, "}")
	case "yieldfromarg":
		w(1, "Yield(c.W(1, 1))")
		w(1, "YieldFrom(boomIter(c, %d, %s_sub(c)))", k, id)
		w(1, "Yield(c.W(2, 2))")
	case "deferred": // a plain closure of the generator whose deferred call panics
		w(1, "Yield(c.W(1, 1))")
		w(1, "func() {")
		w(2, "defer func() { %s }()", b)
		w(2, "c.E(6)")
		w(1, "}()")
		w(1, "Yield(c.W(2, 2))")
	}
	w(1, "return nil")
	w(0, "}")
	w(0, "")
	w(0, "func %s(c *rt.Ctx) {", id)
	w(1, "c.E(8)")
	w(1, "for v := range %s_gen(c) {", id)
	w(2, "c.X(90, v)")
	w(1, "}")
	w(1, "c.E(9)")
	w(0, "}")
	return sb.String()
}

func panicFamily(tier string) *FamilySpec {
	fs := &FamilySpec{Name: "PANICVAL", ShardSize: 150, Reductions: dimReductions([]string{"string", "afteryield"})}
	fs.Template = pipeline.Spec{DeriveRef: true, SFiles: map[string]string{"extra.go": panicExtra}, PerFile: 10, GoDebug: "panicnil=1"}
	for k, v := range panicValues {
		for _, pos := range panicPositions {
			id := fmt.Sprintf("P%05d", len(fs.Progs))
			fs.Progs = append(fs.Progs, pipeline.Prog{ID: id, Key: v + "|" + pos, S: panicText(id, k, pos), Proc: true})
		}
	}
	return fs
}
