package progcheck

import (
	"encoding/json"
	"fmt"
	"os"
	"path/filepath"
	"regexp"
	"sort"
	"strings"
	"time"

	"verif/core"
	"verif/harness"
	"verif/pipeline"
)

var entryRe = regexp.MustCompile(`(?m)^// (.*)\n(?:.*\n)*?func (P\d+)\(c \*rt\.Ctx\)`)
var entryFn = regexp.MustCompile(`(?m)^func (P\d+)\(c \*rt\.Ctx\) (Iter\[int\])?`)

// handSpec loads a hand-written corpus file: every `func P<n>(c *rt.Ctx) Iter[int]` is a generator
// program, every `func P<n>(c *rt.Ctx)` a procedure program. The reference is derived by deriveref.
func handSpec(name string, files ...string) pipeline.Spec {
	sp := pipeline.Spec{Name: name, DeriveRef: true, SFiles: map[string]string{}}
	for _, f := range files {
		b, err := os.ReadFile(filepath.Join(core.Root(), "corpus", f))
		if err != nil {
			core.HarnessError("corpus file %s: %v", f, err)
		}
		text := string(b)
		sp.SFiles[strings.TrimSuffix(f, ".txt")] = text
		for _, m := range entryFn.FindAllStringSubmatch(text, -1) {
			sp.Progs = append(sp.Progs, pipeline.Prog{ID: m[1], Key: name + ":" + m[1], Proc: m[2] == ""})
		}
	}
	sort.Slice(sp.Progs, func(i, j int) bool { return sp.Progs[i].ID < sp.Progs[j].ID })
	return sp
}

func mustBuild(sp *pipeline.Spec) *pipeline.Built {
	b, err := pipeline.Build(sp)
	if err != nil {
		core.HarnessError("%s: %v", sp.Name, err)
	}
	return b
}

// reportCompileProblems turns rejected/unbuildable corpus programs into failures of the property
// (a corpus program that go-co cannot compile cannot be checked, which must not pass silently).
func reportCompileProblems(r *core.Report, b *pipeline.Built) {
	for id, rj := range b.Meta.Rejected {
		r.Fail(core.Failure{Key: b.Meta.Name + ":" + id, Kind: "compile-panic", Detail: rj.Sig, What: "go-co rejects a corpus program", Replay: map[string]any{"message": rj.Message}})
	}
	for id, msg := range b.Meta.Unbuildable {
		r.Fail(core.Failure{Key: b.Meta.Name + ":" + id, Kind: "unbuildable", Detail: msg, What: "go-co output of a corpus program does not build"})
	}
}

// C14 — independence of live iterators under every interleaving.
func C14(tier string) *core.Report {
	r := core.NewReport("C14", tier)
	sp := handSpec("pool", "pool.go.txt")
	b := mustBuild(&sp)
	reportCompileProblems(r, b)
	type cfg struct{ k, m int }
	cfgs := []cfg{{2, 4}, {3, 2}}
	if tier == "thorough" {
		cfgs = []cfg{{2, 5}, {3, 3}}
	}
	for _, cf := range cfgs {
		stdout, stderr, code := pipeline.RunRaw(b, 30*time.Minute, "-mode", "c14", "-k", fmt.Sprint(cf.k), "-m", fmt.Sprint(cf.m))
		if code != 0 {
			core.HarnessError("c14 worker failed: %s", stderr)
		}
		var res harness.C14Result
		if err := json.Unmarshal([]byte(stdout), &res); err != nil {
			core.HarnessError("c14 worker output: %v\n%s", err, stdout)
		}
		r.Add("states", res.Tuples*res.Schedules)
		r.Add("transitions", res.Steps)
		r.Add("traces_validated_against_impl", res.Runs)
		r.Set(fmt.Sprintf("k%d_m%d", cf.k, cf.m), map[string]any{"programs": res.Programs, "ordered_tuples": res.Tuples, "schedules_per_tuple": res.Schedules, "interleaved_runs": res.Runs})
		if len(res.Sample) > 0 {
			r.Sample(map[string]any{"solo_observation_of": sp.Progs[0].Key, "steps": res.Sample})
		}
		seen := map[string]bool{}
		for _, bad := range res.Interference {
			key := strings.Join(bad.Tuple, ",")
			if seen[key] {
				continue
			}
			seen[key] = true
			r.Fail(core.Failure{Key: "pool:" + key, Kind: "interference", Detail: fmt.Sprintf("iterator %d of the tuple deviates from its solo run", bad.Who),
				What: "an iterator's sequence or private effects depend on the interleaving with other live iterators", Replay: bad})
		}
	}
	// runtime level: one Seq value started several times, all interleavings (in-process, no compiler involved)
	rtInterleavings(r, tier)
	// supplement 1 (sampling, not the basis of the claim): free-running goroutines under the race detector
	rsp := sp
	rsp.Race = true
	rb := mustBuild(&rsp)
	rounds := 30
	if tier == "thorough" {
		rounds = 300
	}
	stdout, stderr, code := pipeline.RunRaw(rb, 20*time.Minute, "-mode", "c14race", "-m", "6", "-rounds", fmt.Sprint(rounds))
	races := strings.Count(stderr, "WARNING: DATA RACE")
	if races > 0 || (code != 0 && code != 66) || strings.Contains(stdout, `"mismatches":`) && !strings.Contains(stdout, `"mismatches":0`) {
		// confirm: must reproduce on a second run
		_, stderr2, _ := pipeline.RunRaw(rb, 20*time.Minute, "-mode", "c14race", "-m", "6", "-rounds", fmt.Sprint(rounds))
		if strings.Count(stderr2, "WARNING: DATA RACE") > 0 {
			r.Fail(core.Failure{Key: "pool:goroutines", Kind: "data-race", Detail: firstRaceFrame(stderr), What: "iterators consumed on different goroutines race", Replay: map[string]any{"report": trunc(stderr, 4000)}})
		} else if races == 0 {
			core.HarnessError("c14race worker failed: code %d\n%s\n%s", code, stdout, trunc(stderr, 2000))
		}
	}
	r.Set("race_pass", map[string]any{"rounds": rounds, "goroutines_per_round": 2 * len(sp.Progs), "data_races": races, "note": "free-running goroutines under -race: sampling, reported separately; not the basis of the claim"})
	// supplement 2: static audit — no package-level variables, no go statements in seq/ and generated code
	for _, v := range staticAudit(filepath.Join(core.Repo(), "seq"), filepath.Join(b.Dir, "out")) {
		r.Fail(core.Failure{Key: v, Kind: "shared-state", Detail: "package-level variable or go statement", What: "runtime or generated code declares shared mutable state"})
	}
	r.Set("rule", "every ordered k-tuple (with repetition) of the pool of compiled generators x every interleaving of m advances per iterator; each iterator has its own environment; oracle: its (MoveNext, Current, private effect log) sequence equals its solo run")
	r.Assume("pool: stateful closure loop, recursive tree walk and recursion through YieldFrom, range-backed, infinite with switch/continue, consumer-inside-generator, generator literal called twice, type switch with yielding post, hand-advanced delegate (corpus/pool.go.txt)")
	r.Assume("true parallelism is outside bounded enumeration: the -race pass is sampling and labelled as such; absence of shared state is additionally audited statically")
	pipeline.Evict()
	return r
}

func firstRaceFrame(stderr string) string {
	lines := strings.Split(stderr, "\n")
	for i, l := range lines {
		if strings.Contains(l, "WARNING: DATA RACE") {
			for _, m := range lines[i+1:] {
				m = strings.TrimSpace(m)
				if strings.Contains(m, "go-co") && strings.Contains(m, "(") {
					return regexp.MustCompile(`\(.*`).ReplaceAllString(m, "")
				}
			}
		}
	}
	return "race"
}

func trunc(s string, n int) string {
	if len(s) > n {
		return s[:n]
	}
	return s
}

// HandFamily wraps a hand-written corpus as a family explored against its derived reference.
func HandFamily(name string, files ...string) *FamilySpec {
	sp := handSpec(name, files...)
	return &FamilySpec{Name: name, Progs: sp.Progs, Template: sp, ShardSize: 1000, MustTypeCheck: true}
}
