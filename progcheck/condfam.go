package progcheck

import (
	"fmt"
	"strings"

	"verif/pipeline"
)

// COND family (C02, C18, C01, C07): the loop condition in every expression form x every position of
// the loop that decides whether the compiler / the optimiser keeps the loop behind a thunk x loop
// form. A condition must be evaluated once per iteration, in the advance that reaches it: never when
// the enclosing combinator is built. The conditions have effects, read state the body changes, or
// panic (nil interface, nil func, index out of range), chosen by the environment.
//
//	cond | position | loop form

type condForm struct {
	name string
	cond string
	arg  string // the consumer's argument for the parameter the condition uses ("" = default)
	par  string // parameter name
	step string // extra body statement that makes the condition change
}

var condForms = []condForm{
	{name: "cmp", cond: "n < 2", step: "n++"},
	{name: "closure", cond: "more()", par: "more", arg: "mkMore(c)"},
	{name: "nilfunc", cond: "more()", par: "more", arg: "pickMore(c)"},
	{name: "iface", cond: "src.More()", par: "src", arg: "&counter{c: c}"},
	{name: "nilface", cond: "src.More()", par: "src", arg: "pickSrc(c)"},
	{name: "ptrmethod", cond: "cp.More()", par: "cp", arg: "pickPtr(c)"},
	{name: "valmethod", cond: "cv.More()", step: "cv.n++"},
	{name: "fieldfunc", cond: "h.more()", par: "h", arg: "pickHolder(c)"},
	{name: "index", cond: "flags[n]", step: "n++"},
	{name: "mapidx", cond: "m[n]", step: "n++"},
	{name: "deref", cond: "*pb", par: "pb", arg: "pickPB(c)", step: "*pb = n > 0; n++"},
	{name: "and", cond: "n < 2 && src.More()", par: "src", arg: "pickSrc(c)", step: "n++"},
	{name: "not", cond: "!done(c, n)", step: "n++"},
	{name: "paren", cond: "(src.More())", par: "src", arg: "pickSrc(c)"},
	{name: "generic", cond: "below[int](c, n, 2)", step: "n++"},
	{name: "namedbool", cond: "fl", step: "n++; fl = n < 2"},
	{name: "namedboolcall", cond: "flagOf(c, n)", step: "n++"},
	// a user iterator variable advanced by the condition and re-pointed by the body
	{name: "iternext", cond: "it.MoveNext()", step: "c.X(7, it.Current()); if n == 0 { it = condSrc(c, 5) }; n++"},
}

var condPositions = []string{"plain", "first", "only", "afterif", "afteryield", "loopfirst", "looponly", "incase", "afterloop", "inblock"}
var condLoops = []string{"while", "for3", "forposty", "forposte", "native"}

const condExtra = `package src

import (
	. "github.com/goghcrow/go-co"
	"verif/rt"
)

// the helpers live in a processed file (one that uses the API): the optimise stage only sees those
var _ Iter[int]

type moreI interface{ More() bool }

type counter struct {
	c *rt.Ctx
	n int
}

func (k *counter) More() bool { k.n++; k.c.X(70, k.n); return k.n < 3 }

type vcounter struct {
	c *rt.Ctx
	n int
}

func (k vcounter) More() bool { k.c.X(71, k.n); return k.n < 2 }

type condHolder struct{ more func() bool }

func mkMore(c *rt.Ctx) func() bool {
	k := 0
	return func() bool { k++; c.X(72, k); return k < 3 }
}

func pickMore(c *rt.Ctx) func() bool {
	if c.B(61) {
		return nil
	}
	return mkMore(c)
}

func pickSrc(c *rt.Ctx) moreI {
	if c.B(62) {
		return nil
	}
	return &counter{c: c}
}

func pickPtr(c *rt.Ctx) *counter {
	if c.B(63) {
		return nil
	}
	return &counter{c: c}
}

func pickHolder(c *rt.Ctx) *condHolder {
	switch c.I(64) {
	case 1:
		return nil
	case 2:
		return &condHolder{}
	}
	return &condHolder{more: mkMore(c)}
}

func pickPB(c *rt.Ctx) *bool {
	if c.B(65) {
		return nil
	}
	b := true
	return &b
}

type Flag bool

func flagOf(c *rt.Ctx, n int) Flag { c.X(75, n); return n < 2 }

func condSrc(c *rt.Ctx, k int) Iter[int] {
	c.X(76, k)
	Yield(k)
	c.X(77, k)
	Yield(k + 1)
	return nil
}

func done(c *rt.Ctx, n int) bool { c.X(73, n); return n >= 2 }

func below[T int | int64](c *rt.Ctx, n, lim T) bool { c.X(74, n); return n < lim }
`

func condText(id string, cf condForm, pos, loop string) string {
	var sb strings.Builder
	w := func(ind int, f string, a ...any) {
		sb.WriteString(strings.Repeat("\t", ind) + fmt.Sprintf(f, a...) + "\n")
	}
	w(0, "func %s_gen(c *rt.Ctx, n int, more func() bool, src moreI, cp *counter, cv vcounter, h *condHolder, flags []bool, m map[int]bool, pb *bool, fl Flag, it Iter[int]) Iter[int] {", id)
	emitLoop := func(ind int) {
		step := cf.step
		switch loop {
		case "while":
			w(ind, "for %s {", cf.cond)
			w(ind+1, "Yield(c.W(2, n))")
		case "for3":
			w(ind, "for k := 0; %s; k++ {", cf.cond)
			w(ind+1, "Yield(c.W(2, n+k))")
		case "forposty":
			w(ind, "for ; %s; Yield(c.W(2, n)) {", cf.cond)
			w(ind+1, "c.E(4)")
		case "forposte":
			w(ind, "for ; %s; c.E(4) {", cf.cond)
			w(ind+1, "Yield(c.W(2, n))")
		case "native": // no yield inside: the loop stays a Go loop inside some thunk
			w(ind, "for %s {", cf.cond)
			w(ind+1, "c.X(4, n)")
		}
		if step != "" {
			w(ind+1, "%s", step)
		}
		w(ind, "}")
	}
	switch pos {
	case "plain":
		w(1, "c.E(2)")
		emitLoop(1)
		w(1, "Yield(9)")
	case "first":
		emitLoop(1)
		w(1, "Yield(9)")
	case "only":
		emitLoop(1)
	case "afterif":
		w(1, "if c.B(3) {")
		w(2, "Yield(0)")
		w(1, "}")
		emitLoop(1)
		w(1, "Yield(9)")
	case "afteryield":
		w(1, "Yield(0)")
		emitLoop(1)
		w(1, "Yield(9)")
	case "loopfirst":
		w(1, "for j := 0; j < 2; j++ {")
		emitLoop(2)
		w(2, "Yield(c.W(5, j))")
		w(1, "}")
	case "looponly":
		w(1, "for j := 0; j < 2; j++ {")
		emitLoop(2)
		w(1, "}")
		w(1, "Yield(9)")
	case "incase":
		w(1, "switch c.I(3) {")
		w(1, "case 0:")
		emitLoop(2)
		w(1, "default:")
		w(2, "Yield(1)")
		w(1, "}")
		w(1, "Yield(9)")
	case "afterloop":
		w(1, "for j := 0; j < 2; j++ {")
		w(2, "Yield(c.W(5, j))")
		w(1, "}")
		emitLoop(1)
	case "inblock":
		w(1, "Yield(0)")
		w(1, "{")
		emitLoop(2)
		w(2, "c.E(6)")
		w(1, "}")
		w(1, "Yield(9)")
	}
	w(1, "return nil")
	w(0, "}")
	w(0, "")
	args := map[string]string{"more": "mkMore(c)", "src": "&counter{c: c}", "cp": "&counter{c: c}", "h": "&condHolder{more: mkMore(c)}", "pb": "new(bool)"}
	if cf.par != "" {
		args[cf.par] = cf.arg
	}
	w(0, "func %s(c *rt.Ctx) {", id)
	w(1, "c.E(8)")
	w(1, "g := %s_gen(c, 0, %s, %s, %s, vcounter{c: c}, %s, []bool{true, true}, map[int]bool{0: true, 1: true}, %s, true, condSrc(c, 1))", id, args["more"], args["src"], args["cp"], args["h"], args["pb"])
	w(1, "c.E(9)")
	w(1, "for v := range g {")
	w(2, "c.X(90, v)")
	w(1, "}")
	w(0, "}")
	return sb.String()
}

func condFamily(tier string) *FamilySpec {
	base := []string{"cmp", "plain", "while"}
	fs := &FamilySpec{Name: "COND", ShardSize: 150, Reductions: dimReductions(base)}
	fs.Template = pipeline.Spec{DeriveRef: true, SFiles: map[string]string{"extra.go": condExtra}, PerFile: 10}
	for _, cf := range condForms {
		for _, pos := range condPositions {
			for _, loop := range condLoops {
				if loop == "native" && pos != "plain" && pos != "afteryield" && pos != "loopfirst" && pos != "incase" {
					continue
				}
				id := fmt.Sprintf("P%05d", len(fs.Progs))
				fs.Progs = append(fs.Progs, pipeline.Prog{ID: id, Key: cf.name + "|" + pos + "|" + loop, S: condText(id, cf, pos, loop), Proc: true})
			}
		}
	}
	return fs
}
