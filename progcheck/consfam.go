package progcheck

import (
	"fmt"
	"strings"

	"verif/core"
	"verif/pipeline"
)

// CONS family (C06): consumer code over iterators held in every type position.
//
//	holder | loop | ctl | body | wrap

var consHolders = []string{"local", "call", "field", "mapval", "sliceel", "closure", "generic", "method", "iface", "param", "ptrfield"}
var consLoops = []string{"rangeDef", "rangeAsg", "rangeNone", "rangeBlank", "pull", "pullThenRange", "rangeThenPull", "nestedRange", "nestedIter", "zip"}
var consCtls = []string{"none", "brk", "cont", "ret"}
var consBodies = []string{"log", "redecl", "redecl2", "redeclcap", "redecl2cap", "redecl2ptr", "reassign", "reassignit"}
var consWraps = []string{"plain", "ingen", "inclosure"}

var consBase = []string{"local", "rangeDef", "none", "log", "plain"}

func dimReductions(base []string) func(string) []string {
	return func(key string) []string {
		parts := strings.Split(key, "|")
		if len(parts) != len(base) {
			return nil
		}
		var out []string
		for i := range parts {
			if parts[i] != base[i] {
				q := append([]string{}, parts...)
				q[i] = base[i]
				out = append(out, strings.Join(q, "|"))
			}
		}
		return out
	}
}

func distance(parts, base []string) int {
	d := 0
	for i := range parts {
		if parts[i] != base[i] {
			d++
		}
	}
	return d
}

const consExtra = `package src

import (
	. "github.com/goghcrow/go-co"
	"verif/rt"
)

// Src logs every resume, so the number of pulls is visible on the generator side.
func Src(c *rt.Ctx, n int) Iter[int] {
	for i := 0; i < n; i++ {
		c.E(800 + i)
		Yield(c.V(810 + i))
	}
	c.E(899)
	return nil
}

func Src2(c *rt.Ctx, n int) Iter[int] {
	for i := 0; i < n; i++ {
		c.E(700 + i)
		Yield(c.V(710 + i))
	}
	c.E(799)
	return nil
}

// generic function generator
func GenSrc[T any](c *rt.Ctx, xs ...T) Iter[T] {
	for i, x := range xs {
		c.E(600 + i)
		Yield(x)
	}
	c.E(699)
	return nil
}

type Box struct {
	c *rt.Ctx
	n int
}

// method generator
func (b Box) Items() Iter[int] {
	for i := 0; i < b.n; i++ {
		b.c.E(500 + i)
		Yield(b.c.V(510 + i))
	}
	b.c.E(599)
	return nil
}

type Holder struct {
	it  Iter[int]
	all []Iter[int]
}

// generator of iterators
func Outer(c *rt.Ctx) Iter[Iter[int]] {
	c.E(400)
	Yield(Src(c, 2))
	c.E(401)
	Yield(Src2(c, 1))
	c.E(402)
	return nil
}
`

type consProg struct{ holder, loop, ctl, body, wrap string }

func (p consProg) key() string {
	return strings.Join([]string{p.holder, p.loop, p.ctl, p.body, p.wrap}, "|")
}

func (p consProg) text(id string) string {
	var sb strings.Builder
	ind := 1
	w := func(f string, a ...any) {
		sb.WriteString(strings.Repeat("\t", ind) + fmt.Sprintf(f, a...) + "\n")
	}
	sb.WriteString(fmt.Sprintf("func %s(c *rt.Ctx) {\n", id))
	ret := "return"
	switch p.wrap {
	case "ingen":
		w("g2 := func() Iter[int] {")
		ind++
		ret = "return nil"
	case "inclosure":
		w("func() {")
		ind++
	}
	if p.body == "reassignit" {
		w("n9 := 0")
		w("_ = n9")
	}
	// holder
	G := "g"
	closeParam := ""
	switch p.holder {
	case "local":
		w("g := Src(c, 3)")
	case "call":
		G = "rt.S(c, 1, Src(c, 3))"
	case "field":
		w("h := Holder{it: Src(c, 3)}")
		G = "h.it"
	case "ptrfield":
		w("h := &Holder{all: []Iter[int]{nil, Src(c, 3)}}")
		G = "h.all[1]"
	case "mapval":
		w("m := map[string]Iter[int]{\"a\": Src(c, 3)}")
		G = "m[\"a\"]"
	case "sliceel":
		w("s := []Iter[int]{Src(c, 3)}")
		G = "s[0]"
	case "closure":
		w("mk := func() Iter[int] { return Src(c, 3) }")
		G = "mk()"
	case "generic":
		G = "GenSrc(c, 810, 811, 812)"
	case "method":
		G = "(Box{c, 3}).Items()"
	case "iface":
		w("var av any = Src(c, 3)")
		G = "av.(Iter[int])"
	case "param":
		w("func(g Iter[int]) {")
		ind++
		closeParam = "}(Src(c, 3))"
		if p.ctl == "ret" && p.wrap == "ingen" {
			// a return inside the parameter closure returns from the closure only
		}
	}
	retHere := ret
	if p.holder == "param" {
		retHere = "return"
	}
	body := func(v string) {
		switch p.ctl {
		case "brk":
			w("if c.B(3) {")
			w("\tbreak")
			w("}")
		case "cont":
			w("if c.B(3) {")
			w("\tcontinue")
			w("}")
		case "ret":
			w("if c.B(3) {")
			w("\t%s", retHere)
			w("}")
		}
		switch p.body {
		case "redecl":
			w("%s := %s + 1000", v, v)
		case "redecl2": // multi-name short declaration that re-declares the loop variable
			w("%s, w2 := %s+1000, 1", v, v)
			w("_ = w2")
		case "redeclcap": // a closure captured the loop variable before the body shadows it
			w("get := func() int { return %s }", v)
			w("%s := %s + 1000", v, v)
			w("c.X(13, get())")
		case "redecl2cap":
			w("get := func() int { return %s }", v)
			w("set := func(n int) { %s = n }", v)
			w("%s, w2 := %s+1000, 1", v, v)
			w("_ = w2")
			w("c.X(13, get())")
			w("set(5)")
			w("c.X(14, get())")
		case "reassign": // the place the range expression denotes is changed while the loop runs
			if G == "" {
				w("c.E(15)")
			} else {
				w("%s = Src2(c, 2)", G)
			}
		case "reassignit": // the iterator variable of a pull loop is re-pointed inside the loop (loop forms that declare `it`)
			w("if n9 == 0 {")
			w("\tit = Src2(c, 2)")
			w("}")
			w("n9++")
		case "redecl2ptr":
			w("p := &%s", v)
			w("%s, w2 := %s+1000, 1", v, v)
			w("_ = w2")
			w("c.X(13, *p)")
		}
		w("c.X(4, %s)", v)
		if p.wrap == "ingen" && p.holder != "param" {
			w("Yield(%s)", v)
		}
	}
	switch p.loop {
	case "rangeDef":
		w("for v := range %s {", G)
		ind++
		body("v")
		ind--
		w("}")
	case "rangeNone", "rangeBlank": // no iteration variable at all (gofmt -s turns `for _ = range` into `for range`)
		w("k0 := 0")
		if p.loop == "rangeNone" {
			w("for range %s {", G)
		} else {
			w("for _ = range %s {", G)
		}
		ind++
		w("k0++")
		body("k0")
		ind--
		w("}")
		w("c.X(5, k0)")
	case "rangeAsg":
		w("var v int")
		w("for v = range %s {", G)
		ind++
		body("v")
		ind--
		w("}")
		w("c.X(5, v)")
	case "pull":
		w("it := %s", G)
		w("for it.MoveNext() {")
		ind++
		w("v := it.Current()")
		body("v")
		ind--
		w("}")
		w("c.X(5, it.MoveNext())")
	case "pullThenRange":
		w("it := %s", G)
		w("c.X(6, it.MoveNext())")
		w("c.X(7, it.Current())")
		w("for v := range it {")
		ind++
		body("v")
		ind--
		w("}")
	case "rangeThenPull":
		w("it := %s", G)
		w("for v := range it {")
		w("\tc.X(6, v)")
		w("\tbreak")
		w("}")
		w("c.E(7)")
		w("for it.MoveNext() {")
		ind++
		w("v := it.Current()")
		body("v")
		ind--
		w("}")
	case "nestedRange":
		w("for v := range %s {", G)
		ind++
		w("for u := range Src2(c, 2) {")
		w("\tc.X(8, v*1000+u)")
		w("}")
		body("v")
		ind--
		w("}")
	case "nestedIter":
		w("_ = %s", G)
		w("for inner := range Outer(c) {")
		ind++
		w("for v := range inner {")
		ind++
		body("v")
		ind--
		w("}")
		w("c.E(9)")
		ind--
		w("}")
	case "zip":
		w("a, b := %s, Src2(c, 2)", G)
		w("for a.MoveNext() && b.MoveNext() {")
		ind++
		w("v := a.Current()*1000 + b.Current()")
		body("v")
		ind--
		w("}")
		w("c.X(5, a.Current())")
	}
	if closeParam != "" {
		ind--
		w("%s", closeParam)
	}
	switch p.wrap {
	case "ingen":
		w("c.E(10)")
		w("return nil")
		ind--
		w("}()")
		w("for g2.MoveNext() {")
		w("\tc.X(11, g2.Current())")
		w("}")
	case "inclosure":
		ind--
		w("}()")
	}
	w("c.E(12)")
	sb.WriteString("}\n")
	return sb.String()
}

// consAlways: configurations beyond distance 2 that the quick tier always includes (a feature pair
// that only shows inside a generator, where the loop becomes a runtime loop with a condition thunk).
var consAlways = map[string]bool{
	"local|pull|none|reassignit|ingen":          true,
	"local|pullThenRange|none|reassignit|ingen": true,
	"local|rangeThenPull|none|reassignit|ingen": true,
	"field|rangeDef|none|reassign|ingen":        true,
	"sliceel|rangeDef|brk|reassign|ingen":       true,
	"mapval|rangeAsg|cont|reassign|ingen":       true,
	"ptrfield|nestedRange|none|reassign|ingen":  true,
	"local|zip|none|reassignit|inclosure":       true,
}

func consFamily(tier string) *FamilySpec {
	fs := &FamilySpec{Name: "CONS", Reductions: dimReductions(consBase), ShardSize: 120}
	fs.Template = pipeline.Spec{DeriveRef: true, NoTmp: true, SHeaderDecl: "var _ Iter[int]\n\n", SFiles: map[string]string{"extra.go": consExtra}}
	for _, h := range consHolders {
		for _, l := range consLoops {
			for _, ctl := range consCtls {
				for _, b := range consBodies {
					for _, wr := range consWraps {
						p := consProg{h, l, ctl, b, wr}
						parts := []string{h, l, ctl, b, wr}
						if tier != "thorough" && distance(parts, consBase) > 2 && !consAlways[p.key()] {
							continue
						}
						if wr == "ingen" && h == "param" {
							continue // the parameter closure is not the generator: nothing to yield from inside it
						}
						id := fmt.Sprintf("P%05d", len(fs.Progs))
						fs.Progs = append(fs.Progs, pipeline.Prog{ID: id, Key: p.key(), S: p.text(id), Proc: true})
					}
				}
			}
		}
	}
	return fs
}

// consGenFamily: the consumer loops that live inside a generator (wrapper ingen): their loop
// variables, iterator variables and closures are generator locals, i.e. C03's subject too.
func consGenFamily(tier string) *FamilySpec {
	all := consFamily(tier)
	fs := &FamilySpec{Name: "CONS-gen", Reductions: all.Reductions, Template: all.Template, ShardSize: all.ShardSize}
	for _, p := range all.Progs {
		if strings.HasSuffix(p.Key, "|ingen") {
			fs.Progs = append(fs.Progs, p)
		}
	}
	return fs
}

// C06 — consumer-side range/pull code.
func C06(tier string) *core.Report {
	r := core.NewReport("C06", tier)
	for _, fr := range runFamilies(r, []*FamilySpec{consFamily(tier), itypeFamily(tier)}, tier) {
		for _, f := range fr.Divergences("lockstep", "panic", "lockstep-under-panic", "fatal", "nondet", "nondet-ref") {
			r.Fail(f)
		}
		for _, f := range fr.CompileFailures() {
			r.Fail(f)
		}
	}
	r.Set("rule", "product family holder{local, call result, struct field, pointer field of slice, map value, slice element, closure result, generic function generator, method generator, interface + type assertion, closure parameter} x loop{range :=, range =, pull, pull-then-range, range-break-then-pull, range nested over a second generator, range over a generator of iterators, two iterators zipped} x control{none, break, continue, return under a choice point} x body{log, re-declare the loop variable} x wrapper{plain function, inside a generator that re-yields, inside a closure}; generators log every resume so the number of pulls is part of the log; the reference is the explicit pull loop of the statement (operand evaluated once, body in its own scope)")
	commonAssumptions(r)
	r.Assume("the reference's loop variable follows the module's language version (go 1.21: one variable per loop)")
	return r
}
