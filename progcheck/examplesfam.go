package progcheck

import (
	"os"
	"path/filepath"
	"strings"

	"verif/core"
)

// exampleFamily compiles a real example package of the repository (its *_co.go source, copied and
// renamed to package src) together with hand-written drivers; the reference is derived.
func exampleFamily(name, exampleFile, driver string) *FamilySpec {
	b, err := os.ReadFile(filepath.Join(core.Repo(), "example", exampleFile))
	if err != nil {
		core.HarnessError("example source %s: %v", exampleFile, err)
	}
	var out []string
	for _, l := range strings.Split(string(b), "\n") {
		if strings.HasPrefix(l, "//go:build") || strings.HasPrefix(l, "//go:generate") {
			continue
		}
		if strings.HasPrefix(l, "package ") {
			l = "package src"
		}
		out = append(out, l)
	}
	fs := HandFamily(name, driver)
	fs.Template.SFiles["example_src.go"] = strings.Join(out, "\n")
	fs.MustTypeCheck = true
	return fs
}

// ExampleFamilies: real-world generator code from /repo/example driven by logging consumers.
func ExampleFamilies() []*FamilySpec {
	return []*FamilySpec{
		exampleFamily("EX-linq", "linq/linq_co.go", "ex_linq_driver.go.txt"),
		exampleFamily("EX-tree", "tree/tree_co.go", "ex_tree_driver.go.txt"),
	}
}
