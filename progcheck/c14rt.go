package progcheck

import (
	"fmt"
	"go/ast"
	"go/parser"
	"go/token"
	"path/filepath"
	"strings"

	"github.com/goghcrow/go-co/seq"
	"verif/core"
)

// rtInterleavings: one Seq VALUE (not one generator function) started k times; every interleaving
// of m advances must leave each iterator with the solo sequence. This is the runtime half of C14:
// per-run state (For's loop closure, co, pending step) must be allocated per Start, not per Seq.
func rtInterleavings(r *core.Report, tier string) {
	type mk func(log *[]string) seq.Seq[int]
	// the terms keep their loop state in variables created inside a Delay thunk (as generated code
	// does), so two runs of the same Seq value are independent iff the runtime shares nothing.
	terms := map[string]mk{
		"for-loop": func(log *[]string) seq.Seq[int] {
			return seq.Delay[int](func() seq.Seq[int] {
				i := 0
				return seq.For[int](func() bool { return i < 4 }, func() { i++ },
					seq.Delay[int](func() seq.Seq[int] {
						return seq.Bind[int](i, func() seq.Seq[int] { *log = append(*log, fmt.Sprint("k", i)); return seq.Normal[int]() })
					}))
			})
		},
		"nested-loops-break-continue": func(log *[]string) seq.Seq[int] {
			return seq.Delay[int](func() seq.Seq[int] {
				i := 0
				return seq.Loop[int](seq.Delay[int](func() seq.Seq[int] {
					i++
					if i%2 == 0 {
						return seq.Continue[int]()
					}
					if i > 9 {
						return seq.Break[int]()
					}
					j := 0
					return seq.While[int](func() bool { j++; return j <= 2 }, seq.Delay[int](func() seq.Seq[int] {
						return seq.Bind[int](i*10+j, seq.Normal[int])
					}))
				}))
			})
		},
		// loop VALUES without a Delay in front: the runs share the very same For closure
		"bare-loop": func(log *[]string) seq.Seq[int] {
			return seq.Loop[int](seq.Bind[int](7, seq.Normal[int]))
		},
		"bare-nested-for": func(log *[]string) seq.Seq[int] {
			return seq.Combine[int](
				seq.For[int](nil, func() {}, seq.Combine[int](seq.Bind[int](1, seq.Normal[int]),
					seq.While[int](func() bool { return false }, seq.Bind[int](2, seq.Normal[int])))),
				seq.Return[int]())
		},
		"combine-breakable": func(log *[]string) seq.Seq[int] {
			return seq.Combine[int](
				seq.Breakable[int](seq.Bind[int](1, func() seq.Seq[int] { return seq.Break[int]() })),
				seq.Combine[int](seq.Bind[int](2, seq.Normal[int]), seq.Bind[int](3, seq.Return[int])))
		},
		"sendable": func(log *[]string) seq.Seq[int] {
			return seq.Delay[int](func() seq.Seq[int] {
				acc := 0
				return seq.Loop[int](seq.Delay[int](func() seq.Seq[int] {
					return seq.BindRecv[int](acc, func(v int) seq.Seq[int] { acc += v + 1; return seq.Normal[int]() })
				}))
			})
		},
	}
	k, m := 3, 3
	if tier == "thorough" {
		k, m = 3, 4
	}
	var scheds [][]int
	cnt := make([]int, k)
	var rec func(cur []int)
	rec = func(cur []int) {
		if len(cur) == k*m {
			scheds = append(scheds, append([]int{}, cur...))
			return
		}
		for i := 0; i < k; i++ {
			if cnt[i] < m {
				cnt[i]++
				rec(append(cur, i))
				cnt[i]--
			}
		}
	}
	rec(nil)
	runs, steps := 0, 0
	for name, build := range terms {
		var soloLog []string
		solo := drain(seq.Start(build(&soloLog)), m)
		for _, s := range scheds {
			var log []string
			shared := build(&log) // ONE Seq value
			its := make([]seq.Iterator[int], k)
			obs := make([][]string, k)
			for i := range its {
				its[i] = seq.Start(shared)
			}
			for _, who := range s {
				ok := its[who].MoveNext()
				obs[who] = append(obs[who], fmt.Sprintf("%v,%d", ok, its[who].Current()))
			}
			runs++
			steps += len(s)
			for i := range its {
				if strings.Join(obs[i], " ") != strings.Join(solo, " ") {
					r.Fail(core.Failure{Key: "seq:" + name, Kind: "interference", Detail: "runs of one Seq value share state",
						What:   "two iterators started from the same Seq value influence each other",
						Replay: map[string]any{"schedule": s, "iterator": i, "got": obs[i], "solo": solo}})
					goto next
				}
			}
		}
	next:
	}
	r.Add("states", len(terms)*len(scheds))
	r.Add("transitions", steps)
	r.Add("traces_validated_against_impl", runs)
	r.Set("runtime_level", map[string]any{"seq_values": len(terms), "iterators_per_value": k, "advances_each": m, "schedules": len(scheds)})
}

func drain(it seq.Iterator[int], m int) []string {
	var obs []string
	for j := 0; j < m; j++ {
		ok := it.MoveNext()
		obs = append(obs, fmt.Sprintf("%v,%d", ok, it.Current()))
	}
	return obs
}

// staticAudit lists package-level variables and go statements in the given directories
// (non-test files). The exploration's prefix argument and C14 both rely on their absence.
func staticAudit(dirs ...string) []string {
	var out []string
	for _, d := range dirs {
		files, _ := filepath.Glob(filepath.Join(d, "*.go"))
		for _, f := range files {
			if strings.HasSuffix(f, "_test.go") {
				continue
			}
			fset := token.NewFileSet()
			af, err := parser.ParseFile(fset, f, nil, 0)
			if err != nil {
				continue
			}
			for _, decl := range af.Decls {
				if gd, ok := decl.(*ast.GenDecl); ok && gd.Tok == token.VAR {
					for _, sp := range gd.Specs {
						for _, n := range sp.(*ast.ValueSpec).Names {
							if n.Name != "_" {
								out = append(out, fmt.Sprintf("%s: package-level var %s", filepath.Base(filepath.Dir(f))+"/"+filepath.Base(f), n.Name))
							}
						}
					}
				}
			}
			ast.Inspect(af, func(n ast.Node) bool {
				if _, ok := n.(*ast.GoStmt); ok {
					out = append(out, fmt.Sprintf("%s: go statement", filepath.Base(f)))
				}
				return true
			})
		}
	}
	return out
}
