package progcheck

import (
	"fmt"
	"strings"

	"verif/core"
	"verif/pipeline"
)

// ETA family (C07, C13): closures of the shape func(params) R { return callee(args) } placed in
// bystander code and in generator bodies.
//
//	callee | params | place

type etaCallee struct {
	name    string
	prelude string // declarations before the closure (uses c)
	call    string // callee expression applied inside the closure
	mutate  string // statement executed after the closure was created, before it is called
	sig     string // parameter list / result of the closure for the "same" shape
	args    string
	invoke  string // how h is invoked (arguments)
}

const etaExtra = `package src

import (
	. "github.com/goghcrow/go-co"
	"verif/rt"
)

// the helpers live in a processed file (one that uses the API), so that the optimise stage, which
// only sees processed files, can resolve them
var _ Iter[int]

func pkgInc(c *rt.Ctx, a int) int { c.X(901, a); return a + 1 }

func pkgSum(c *rt.Ctx, xs ...int) int {
	n := 0
	for _, x := range xs {
		n += x
	}
	c.X(902, n)
	return n
}

// Shape and Sq are declared in a plain file, which the optimise stage does not see
func pkgArea(c *rt.Ctx, s Shape) int { c.X(910, s.Area()); return s.Area() }

func pkgSide(c *rt.Ctx, s Sq) int { c.X(911, s.V); return s.V }

func pkgCount(c *rt.Ctx, xs ...any) int { c.X(908, len(xs)); return len(xs) }

func pkgSub(c *rt.Ctx, a, b int) int { c.X(907, a*100+b); return a - b }

func ident[T any](x T) T { return x }

func etaSrc(c *rt.Ctx, k int) Iter[int] {
	c.X(920, k)
	Yield(k)
	c.X(921, k)
	Yield(k + 1)
	return nil
}

type adder struct {
	c *rt.Ctx
	k int
}

func (o *adder) add(a int) int { o.c.X(903, o.k); return a + o.k }

type meter struct {
	c *rt.Ctx
	n int
}

func (m meter) read(a int) int { m.c.X(909, m.n); return a + m.n }
func (m *meter) tick()         { m.n++ }

func mkAdd(c *rt.Ctx, k int) func(int) int {
	c.X(904, k)
	return func(a int) int { c.X(905, a); return a + k }
}

func more(c *rt.Ctx, n *int) func() bool {
	return func() bool { *n++; c.X(906, *n); return *n < 3 }
}
`

// a file which does not use the API: go-co neither rewrites it nor shows it to the optimise stage
const etaPlain = `package src

type Shape interface{ Area() int }

type Sq struct{ V int }

func (s Sq) Area() int { return s.V * s.V }
`

var etaCallees = []etaCallee{
	{name: "pkgfunc", call: "pkgInc", sig: "(c *rt.Ctx, a int) int", args: "c, a", invoke: "c, 10"},
	{name: "pkgfunc-permuted", call: "pkgSub", sig: "(c *rt.Ctx, a, b int) int", args: "c, b, a", invoke: "c, 10, 3"},
	{name: "pkgfunc-rotated", call: "pkgSub", sig: "(c *rt.Ctx, b, a int) int", args: "c, a, b", invoke: "c, 10, 3"},
	{name: "localvar", prelude: "f := func(a int) int { c.X(1, a); return a + 1 }", call: "f", mutate: "f = func(a int) int { c.X(2, a); return a + 2 }", sig: "(a int) int", args: "a", invoke: "10"},
	{name: "nilvar", prelude: "var f func(int) int", call: "f", mutate: "f = func(a int) int { c.X(2, a); return a + 2 }", sig: "(a int) int", args: "a", invoke: "10"},
	{name: "methodval", prelude: "o := &adder{c, 1}", call: "o.add", mutate: "o = &adder{c, 100}", sig: "(a int) int", args: "a", invoke: "10"},
	{name: "methodfield", prelude: "o := &adder{c, 1}", call: "o.add", mutate: "o.k = 100", sig: "(a int) int", args: "a", invoke: "10"},
	{name: "valuemethod-fieldwrite", prelude: "m := meter{c, 1}", call: "m.read", mutate: "m.n = 100", sig: "(a int) int", args: "a", invoke: "10"},
	{name: "valuemethod-ptrcall", prelude: "m := meter{c, 1}", call: "m.read", mutate: "m.tick()", sig: "(a int) int", args: "a", invoke: "10"},
	{name: "fieldfunc", prelude: "s := struct{ f func(int) int }{func(a int) int { c.X(1, a); return a + 1 }}", call: "s.f", mutate: "s.f = func(a int) int { c.X(2, a); return a + 2 }", sig: "(a int) int", args: "a", invoke: "10"},
	{name: "callresult", call: "mkAdd(c, 5)", sig: "(a int) int", args: "a", invoke: "10"},
	{name: "builtin", call: "len", sig: "(s []int) int", args: "s", invoke: "[]int{1, 2}"},
	{name: "conversion", call: "int64", sig: "(a int) int64", args: "a", invoke: "10"},
	{name: "generic-inst", call: "ident[int]", sig: "(a int) int", args: "a", invoke: "10"},
	{name: "generic-infer", call: "ident", sig: "(a int) int", args: "a", invoke: "10"},
	{name: "variadic-spread", call: "pkgSum", sig: "(c *rt.Ctx, xs ...int) int", args: "c, xs...", invoke: "c, 1, 2"},
	{name: "variadic-collapse", call: "pkgCount", sig: "(c *rt.Ctx, xs ...any) int", args: "c, xs", invoke: "c, 1, 2, 3"},
	{name: "variadic-forward", call: "pkgSum", sig: "(c *rt.Ctx, xs []int) int", args: "c, xs...", invoke: "c, []int{1, 2}"},
	{name: "variadic-forward-any", prelude: "var keep any", call: "pkgSum", sig: "(c *rt.Ctx, xs []int) int", args: "c, xs...", invoke: "c, []int{1, 2}", mutate: "keep = h\n\tif _, ok := keep.(func(*rt.Ctx, []int) int); !ok { c.E(77) }"},
	{name: "plaintype-narrowing", prelude: "var keep any", call: "pkgArea", sig: "(c *rt.Ctx, s Sq) int", args: "c, s", invoke: "c, Sq{3}", mutate: "keep = h\n\tif _, ok := keep.(func(*rt.Ctx, Sq) int); !ok { c.E(77) }"},
	{name: "plaintype-same", call: "pkgSide", sig: "(c *rt.Ctx, s Sq) int", args: "c, s", invoke: "c, Sq{3}"},
	{name: "itervar-reassigned", prelude: "cur := etaSrc(c, 1)", call: "cur.MoveNext", mutate: "cur = etaSrc(c, 5)", sig: "() bool", args: "", invoke: ""},
	{name: "itervar-nil", prelude: "var cur Iter[int]", call: "cur.MoveNext", mutate: "cur = etaSrc(c, 5)", sig: "() bool", args: "", invoke: ""},
	{name: "iterparam-reassigned", prelude: "cur := etaSrc(c, 1)\n\tcur = func(it Iter[int]) Iter[int] { it.MoveNext(); return it }(cur)", call: "cur.MoveNext", mutate: "cur = etaSrc(c, 5)", sig: "() bool", args: "", invoke: ""},
	{name: "widening", prelude: "f := func(a int) int { c.X(1, a); return a + 1 }", call: "f", sig: "(a int) any", args: "a", invoke: "10"},
	{name: "recvar", prelude: "var fact func(int) int\n\tfact = func(n int) int { c.X(1, n); if n <= 1 { return 1 }; return n * fact(n-1) }", call: "fact", mutate: "old := fact\n\tfact = func(n int) int { c.X(2, n); return old(n) + 1000 }", sig: "(n int) int", args: "n", invoke: "3"},
}

// parameter shapes applied to callees of signature (a int) int
var etaParamShapes = []string{"same", "unnamed", "blank", "swapped", "subset", "renamed"}
var etaPlaces = []string{"funcbody", "pkgvar", "genbody", "forcond", "yieldarg"}

type etaProg struct {
	callee       *etaCallee
	shape, place string
}

func (p etaProg) key() string { return p.callee.name + "|" + p.shape + "|" + p.place }

func (p etaProg) closure() (lit string, ok bool) {
	cl := p.callee
	switch p.shape {
	case "same":
		return fmt.Sprintf("func%s { return %s(%s) }", cl.sig, cl.call, cl.args), true
	case "unnamed":
		// unnamed parameters: the callee is applied to nothing
		if cl.name != "localvar" && cl.name != "pkgfunc" {
			return "", false
		}
		if cl.name == "pkgfunc" {
			return "func(*rt.Ctx, int) int { return zero() }", true
		}
		return "func(int) int { return g0() }", true
	case "blank":
		if cl.name != "localvar" {
			return "", false
		}
		return "func(_ int) int { return g0() }", true
	case "swapped":
		if cl.name != "localvar" {
			return "", false
		}
		return "func(a, b int) int { return f2(b, a) }", true
	case "subset":
		if cl.name != "localvar" {
			return "", false
		}
		return "func(a, b int) int { return f(a) }", true
	case "renamed":
		if cl.name != "localvar" {
			return "", false
		}
		return "func(a int) int { b := a; _ = b; return f(a) }", true
	}
	return "", false
}

func (p etaProg) text(id string) (string, bool) {
	cl := p.callee
	lit, ok := p.closure()
	if !ok {
		return "", false
	}
	invoke := cl.invoke
	extraPre := ""
	switch p.shape {
	case "unnamed", "blank":
		extraPre = "g0 := func() int { c.X(7, 0); return 7 }\n\t_ = g0\n\tzero := func() int { c.X(8, 0); return 8 }\n\t_ = zero"
	case "swapped":
		extraPre = "f2 := func(a, b int) int { c.X(7, a*100+b); return a - b }"
		invoke = "10, 3"
	case "subset":
		invoke = "10, 3"
	}
	var sb strings.Builder
	w := func(ind int, f string, a ...any) {
		sb.WriteString(strings.Repeat("\t", ind) + fmt.Sprintf(f, a...) + "\n")
	}
	pre := func(ind int) {
		if cl.prelude != "" {
			w(ind, "%s", cl.prelude)
		}
		if extraPre != "" {
			w(ind, "%s", extraPre)
		}
		if cl.prelude != "" && (p.shape == "unnamed" || p.shape == "blank" || p.shape == "swapped") {
			w(ind, "_ = %s", strings.Split(cl.call, ".")[0])
		}
	}
	switch p.place {
	case "funcbody": // a plain function next to generators
		w(0, "func %s(c *rt.Ctx) {", id)
		pre(1)
		w(1, "h := %s", lit)
		if cl.mutate != "" {
			w(1, "%s", cl.mutate)
		}
		w(1, "c.X(3, h(%s))", invoke)
		w(1, "c.X(4, h(%s))", invoke)
		w(0, "}")
	case "pkgvar": // package-level variable initialiser (only callees that need no locals)
		if cl.prelude != "" || extraPre != "" || strings.Contains(cl.call, "c,") || strings.Contains(cl.call, "(c") || strings.Contains(cl.sig, "rt.Ctx") && false {
			return "", false
		}
		w(0, "var %s_h = %s", id, lit)
		w(0, "")
		w(0, "func %s(c *rt.Ctx) {", id)
		w(1, "c.X(3, %s_h(%s))", id, invoke)
		w(0, "}")
	case "genbody": // inside a generator, around yields
		w(0, "func %s_gen(c *rt.Ctx) Iter[int] {", id)
		pre(1)
		w(1, "h := %s", lit)
		w(1, "Yield(c.V(5))")
		if cl.mutate != "" {
			w(1, "%s", cl.mutate)
		}
		w(1, "c.X(3, h(%s))", invoke)
		w(1, "Yield(c.V(6))")
		w(1, "c.X(4, h(%s))", invoke)
		w(1, "return nil")
		w(0, "}")
		w(0, "")
		w(0, "func %s(c *rt.Ctx) {", id)
		w(1, "for v := range %s_gen(c) {", id)
		w(2, "c.X(9, v)")
		w(1, "}")
		w(0, "}")
	case "yieldarg": // the closure's result is the yielded expression: Bind(v, ...) argument position
		if !strings.HasSuffix(cl.sig, ") int") {
			return "", false
		}
		w(0, "func %s_gen(c *rt.Ctx) Iter[int] {", id)
		pre(1)
		w(1, "h := %s", lit)
		if cl.mutate != "" {
			w(1, "%s", cl.mutate)
		}
		w(1, "Yield(h(%s))", invoke)
		w(1, "return nil")
		w(0, "}")
		w(0, "")
		w(0, "func %s(c *rt.Ctx) {", id)
		w(1, "for v := range %s_gen(c) {", id)
		w(2, "c.X(9, v)")
		w(1, "}")
		w(0, "}")
	case "forcond":
		// the compiler itself wraps a loop condition `f()` into func() bool { return f() }
		if p.shape != "same" {
			return "", false
		}
		var decl, cond, mutate string
		switch cl.name {
		case "localvar":
			decl = "n := 0\n\tf := func() bool { n++; c.X(1, n); return n < 3 }"
			cond = "f()"
			mutate = "f = func() bool { n++; c.X(2, n); return n < 5 }"
		case "methodval":
			decl = "n := 0\n\tm := &struct{ more func() bool }{more(c, &n)}"
			cond = "m.more()"
			mutate = "k := 0\n\t\tm = &struct{ more func() bool }{func() bool { k++; c.X(2, k); return false }}"
		case "callresult":
			decl = "n := 0"
			cond = "more(c, &n)()"
			mutate = "c.E(2)"
		default:
			return "", false
		}
		w(0, "func %s_gen(c *rt.Ctx) Iter[int] {", id)
		w(1, "%s", decl)
		w(1, "for %s {", cond)
		w(2, "Yield(c.V(5))")
		w(2, "%s", mutate)
		w(1, "}")
		w(1, "return nil")
		w(0, "}")
		w(0, "")
		w(0, "func %s(c *rt.Ctx) {", id)
		w(1, "for v := range %s_gen(c) {", id)
		w(2, "c.X(9, v)")
		w(1, "}")
		w(0, "}")
	}
	return sb.String(), true
}

func etaFamily(tier string) *FamilySpec {
	fs := &FamilySpec{Name: "ETA", ShardSize: 100}
	fs.Template = pipeline.Spec{DeriveRef: true, SHeaderDecl: "var _ Iter[int]\n\n", SFiles: map[string]string{"extra.go": etaExtra, "plain_types.go": etaPlain}, PerFile: 1}
	for i := range etaCallees {
		for _, sh := range etaParamShapes {
			for _, pl := range etaPlaces {
				p := etaProg{&etaCallees[i], sh, pl}
				id := fmt.Sprintf("P%05d", len(fs.Progs))
				txt, ok := p.text(id)
				if !ok {
					continue
				}
				fs.Progs = append(fs.Progs, pipeline.Prog{ID: id, Key: p.key(), S: txt, Proc: true})
			}
		}
	}
	return fs
}

func init() {
	OptFamilies = func(tier string) []*FamilySpec {
		return []*FamilySpec{etaFamily(tier), importFamily(tier), bystanderFamily(tier), bystander2Family(tier), bystander3Family(tier)}
	}
}

// C13 — code that is not a generator is behaviourally unchanged.
func C13(tier string) *core.Report {
	r := core.NewReport("C13", tier)
	// ITYPE: plain code that holds, passes and converts values of the API type (and a foreign type that is merely named Iter)
	fams := []*FamilySpec{etaFamily(tier), bystanderFamily(tier), bystander2Family(tier), bystander3Family(tier), importFamily(tier), itypeFamily(tier)}
	for _, fr := range runFamilies(r, fams, tier) {
		for _, f := range fr.Divergences("lockstep", "panic", "lockstep-under-panic", "fatal", "nondet", "nondet-ref") {
			r.Fail(f)
		}
		for _, f := range fr.CompileFailures() {
			r.Fail(f)
		}
		for _, f := range fr.BlankImportsDropped() {
			r.Fail(f)
		}
		for _, f := range fr.DirectivesDropped() {
			r.Fail(f)
		}
	}
	r.Set("rule", "product family callee{package function, local function variable reassigned later, nil variable assigned later, method value with receiver reassigned / mutated later, struct field function, call result, builtin, conversion, generic function instantiated / inferred, variadic spread, result widening, recursive variable} x parameter shape{same, unnamed, blank, swapped, subset, with extra statement} x placement{plain function body, package-level initialiser, generator body around yields, yielded expression, loop condition of a generator}; plus bystander declarations (consts with iota, initialisers with effects, init functions, methods, generic functions, directives, side-effect imports); plain code is ordinary Go, so the derived reference is the identical text and Go itself is the oracle")
	commonAssumptions(r)
	return r
}
