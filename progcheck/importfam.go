package progcheck

import (
	"fmt"
	"strings"

	"verif/pipeline"
)

// IMPORT/CONFIG family (C11, C07, C13): one file per program, each with its own import block.
//
//	imp | decl | elem | ret | call

var impModes = []string{"dot", "named", "renamed", "dot+seq", "named+seqrenamed"}
var impDecls = []string{"func", "method", "generic", "genericmethod", "litassigned", "litcalled", "nestedlit", "litinclosure"}
var impElems = []string{"int", "string", "struct", "pointer", "func", "any", "slice", "iter", "cmtstring"}
var impRets = []string{"nil", "named"}
var impCalls = []string{"plain", "inst"} // API calls with inferred / explicitly written type arguments
var impBase = []string{"dot", "func", "int", "nil", "plain"}

type impProg struct{ imp, decl, elem, ret, call string }

func (p impProg) key() string {
	return strings.Join([]string{p.imp, p.decl, p.elem, p.ret, p.call}, "|")
}

func (p impProg) text(id string) string {
	q := "" // qualifier of the API
	var imports []string
	switch p.imp {
	case "dot":
		imports = append(imports, `. "github.com/goghcrow/go-co"`)
	case "named":
		imports = append(imports, `"github.com/goghcrow/go-co"`)
		q = "co."
	case "renamed":
		imports = append(imports, `gen "github.com/goghcrow/go-co"`)
		q = "gen."
	case "dot+seq":
		imports = append(imports, `. "github.com/goghcrow/go-co"`, `"github.com/goghcrow/go-co/seq"`)
	case "named+seqrenamed":
		imports = append(imports, `"github.com/goghcrow/go-co"`, `sq "github.com/goghcrow/go-co/seq"`)
		q = "co."
	}
	imports = append(imports, `"fmt"`, `"verif/rt"`)
	var T, v1, v2 string
	pre := ""
	switch p.elem {
	case "int":
		T, v1, v2 = "int", "c.V(1)", "c.V(2)"
	case "string":
		T, v1, v2 = "string", `fmt.Sprint("s", c.V(1))`, `"t"`
	case "cmtstring": // comment delimiters inside string literals and a block comment: the literal's source is attached as a comment
		T, v1, v2 = "string", `fmt.Sprint("*/", c.V(1)) /* block */`, `"/*" + "//"`
	case "struct":
		T, v1, v2 = id+"_S", id+"_S{c.V(1)}", id+"_S{2}"
		pre = fmt.Sprintf("type %s_S struct{ a int }\n\n", id)
	case "pointer":
		T, v1, v2 = "*int", "new(int)", "(*int)(nil)"
	case "func":
		T, v1, v2 = "func() int", "func() int { return c.V(1) }", "func() int { return 2 }"
	case "any":
		T, v1, v2 = "any", "any(c.V(1))", "any(nil)"
	case "slice":
		T, v1, v2 = "[]int", "[]int{c.V(1)}", "[]int(nil)"
	case "iter":
		T = q + "Iter[int]"
		v1 = fmt.Sprintf("func() %sIter[int] { %sYield(c.V(1)); return nil }()", q, q)
		v2 = fmt.Sprintf("func() %sIter[int] { %sYield(c.V(2)); %sYield(c.V(3)); return nil }()", q, q, q)
	}
	iterT := q + "Iter[" + T + "]"
	res, ret := iterT, "return nil"
	if p.ret == "named" {
		res, ret = "(_ "+iterT+")", "return"
	}
	inst := func(t string) string { // explicit type argument of an API call
		if p.call == "inst" {
			return "[" + t + "]"
		}
		return ""
	}
	body := func(ind string) string {
		return fmt.Sprintf("%s%sYield%s(%s)\n%sc.E(5)\n%s%sYield%s(%s)\n%s%s\n", ind, q, inst(T), v1, ind, ind, q, inst(T), v2, ind, ret)
	}
	var sb strings.Builder
	sb.WriteString("package src\n\nimport (\n")
	for _, im := range imports {
		sb.WriteString("\t" + im + "\n")
	}
	sb.WriteString(")\n\n")
	sb.WriteString("var _ = fmt.Sprint\n\n")
	switch p.imp {
	case "dot+seq":
		sb.WriteString(fmt.Sprintf("var %s_keep seq.Iterator[int]\n\n", id))
	case "named+seqrenamed":
		sb.WriteString(fmt.Sprintf("var %s_keep sq.Iterator[int]\n\n", id))
	}
	sb.WriteString(pre)
	show := "fmt.Sprint(v)"
	switch p.elem {
	case "pointer":
		show = "v == nil"
	case "func":
		show = "v()"
	case "iter":
		show = "drain" + id + "(v)"
		sb.WriteString(fmt.Sprintf("func drain%s(it %sIter[int]) (n int) {\n\tfor v := range it {\n\t\tn = n*10 + v\n\t}\n\treturn\n}\n\n", id, q))
	}
	var get string
	switch p.decl {
	case "func":
		sb.WriteString(fmt.Sprintf("func %s_g(c *rt.Ctx) %s {\n%s}\n\n", id, res, body("\t")))
		get = id + "_g(c)"
	case "method":
		sb.WriteString(fmt.Sprintf("type %s_t struct{ c *rt.Ctx }\n\nfunc (t %s_t) Gen() %s {\n\tc := t.c\n%s}\n\n", id, id, res, body("\t")))
		get = id + "_t{c}.Gen()"
	case "generic":
		sb.WriteString(fmt.Sprintf("func %s_g[E any](c *rt.Ctx, xs ...E) %sIter[E] {\n\tfor _, x := range xs {\n\t\t%sYield%s(x)\n\t\tc.E(5)\n\t}\n\treturn nil\n}\n\n", id, q, q, inst("E")))
		get = fmt.Sprintf("%s_g[%s](c, %s, %s)", id, T, v1, v2)
	case "genericmethod":
		sb.WriteString(fmt.Sprintf("type %s_box[E any] struct {\n\tc  *rt.Ctx\n\txs []E\n}\n\nfunc (b %s_box[E]) Gen() %sIter[E] {\n\tfor _, x := range b.xs {\n\t\t%sYield%s(x)\n\t\tb.c.E(5)\n\t}\n\treturn nil\n}\n\n", id, id, q, q, inst("E")))
		get = fmt.Sprintf("%s_box[%s]{c, []%s{%s, %s}}.Gen()", id, T, T, v1, v2)
	}
	sb.WriteString(fmt.Sprintf("func %s(c *rt.Ctx) {\n", id))
	switch p.decl {
	case "litassigned":
		sb.WriteString(fmt.Sprintf("\tg := func() %s {\n%s\t}\n", res, body("\t\t")))
		get = "g()"
	case "litcalled":
		sb.WriteString(fmt.Sprintf("\tit := func() %s {\n%s\t}()\n", res, body("\t\t")))
		get = "it"
	case "nestedlit":
		sb.WriteString(fmt.Sprintf("\tg := func() %s {\n\t\t%sYieldFrom%s(func() %s {\n%s\t\t}())\n\t\tc.E(6)\n\t\treturn nil\n\t}\n", iterT, q, inst(T), res, body("\t\t\t")))
		get = "g()"
	case "litinclosure":
		sb.WriteString(fmt.Sprintf("\tg := func() %s {\n\t\tmk := func() %s {\n\t\t\tc.E(7)\n\t\t\treturn func() %s {\n%s\t\t\t}()\n\t\t}\n\t\t%sYieldFrom%s(mk())\n\t\treturn nil\n\t}\n", iterT, iterT, res, body("\t\t\t\t"), q, inst(T)))
		get = "g()"
	}
	sb.WriteString(fmt.Sprintf("\tsrc := %s\n\tfor v := range src {\n\t\tc.X(8, %s)\n\t}\n\tc.E(9)\n}\n", get, show))
	return sb.String()
}

func importFamily(tier string) *FamilySpec {
	fs := &FamilySpec{Name: "IMPORT", Reductions: dimReductions(impBase), ShardSize: 40}
	fs.Template = pipeline.Spec{DeriveRef: true}
	for _, im := range impModes {
		for _, d := range impDecls {
			for _, e := range impElems {
				for _, rt := range impRets {
					for _, cl := range impCalls {
						parts := []string{im, d, e, rt, cl}
						if tier != "thorough" && distance(parts, impBase) > 2 {
							continue
						}
						if (d == "generic" || d == "genericmethod") && rt == "named" {
							continue
						}
						p := impProg{im, d, e, rt, cl}
						id := fmt.Sprintf("P%05d", len(fs.Progs))
						fs.Progs = append(fs.Progs, pipeline.Prog{ID: id, Key: p.key(), S: p.text(id), Proc: true, OwnFile: true})
					}
				}
			}
		}
	}
	return fs
}

func bystanderFamily(tier string) *FamilySpec {
	fs := HandFamily("BYSTANDER", "bystander.go.txt")
	// processed earlier in the same run (file names sort): per-file state of the compiler must not leak
	fs.Template.SFiles["a_lit.go"] = `package src

import (
	"io"

	. "github.com/goghcrow/go-co"
)

// ARead: the only mention of package io in this file (the first one visited) sits in an eta-shaped
// closure whose callee lives in another processed file
var ARead = func(r io.Reader) int { return P8506_count(r) }

// ALit holds a generator literal
var ALit = func() Iter[int] {
	// a comment inside the literal
	Yield(1)
	return nil
}
`
	// types the processed file uses but the optimise stage cannot see (it loads the processed files only)
	fs.Template.SFiles["plain_box.go"] = `package src

import "time"

type PBox struct{ V any }

type PTable map[int]string

func PMk(n int) PBox { return PBox{V: time.Duration(n)} }
`
	return fs
}

// bystander2Family: a processed file with a named API import that declares its own Iter / Seq /
// Start / Bind (a package of its own: a dot-import elsewhere in the package would clash).
// bystander3Family: directives and doc comments in a file that contains a generator literal.
func bystander3Family(tier string) *FamilySpec {
	return HandFamily("BYSTANDER3", "bystander3.go.txt")
}

func bystander2Family(tier string) *FamilySpec {
	return HandFamily("BYSTANDER2", "bystander2.go.txt")
}
