package progcheck

import (
	"encoding/json"
	"fmt"
	"strings"
	"sync"
	"time"

	"verif/core"
	"verif/harness"
	"verif/pipeline"
	"verif/rtcheck"
)

// C17 — stack use does not grow with the number of iterations between yields.
func C17(tier string) *core.Report {
	r := core.NewReport("C17", tier)
	rtcheck.C17Runtime(r, tier)

	sp := handSpec("loops", "loops.go.txt")
	b := mustBuild(&sp)
	reportCompileProblems(r, b)
	ns := []int{1 << 12}
	if tier == "thorough" {
		ns = []int{1 << 14, 1 << 20}
	}
	type job struct {
		id     string
		params []int
	}
	var jobs []job
	for _, id := range b.Meta.Registry {
		if id == "P8210" {
			continue
		}
		for _, n := range ns {
			jobs = append(jobs, job{id, []int{n, n}}, job{id, []int{n, 16}})
		}
	}
	depths := []int{1, 2, 4, 8, 16, 32, 64}
	if tier == "thorough" {
		depths = append(depths, 128, 256)
	}
	for _, d := range depths {
		jobs = append(jobs, job{"P8210", []int{d}})
	}
	results := make([]*harness.C17Result, len(jobs))
	crashed := make([]string, len(jobs))
	var wg sync.WaitGroup
	sem := make(chan struct{}, 8)
	for i := range jobs {
		i := i
		wg.Add(1)
		go func() {
			defer wg.Done()
			sem <- struct{}{}
			defer func() { <-sem }()
			j := jobs[i]
			stdout, stderr, code := pipeline.RunRaw(b, 20*time.Minute, "-mode", "c17", "-only", j.id, "-params", core.JoinInts(j.params))
			if code != 0 {
				crashed[i] = firstLine(stderr)
				return
			}
			var res harness.C17Result
			if err := json.Unmarshal([]byte(stdout), &res); err != nil {
				core.HarnessError("c17 worker output for %s: %v", j.id, err)
			}
			results[i] = &res
		}()
	}
	wg.Wait()
	byDepth := map[int]int{}
	for i, j := range jobs {
		key := fmt.Sprintf("loops:%s(n=%d,k=%d)", j.id, j.params[0], last(j.params))
		r.Add("states", 1)
		r.Add("traces_validated_against_impl", 1)
		if crashed[i] != "" {
			kind := "stack-overflow"
			if !strings.Contains(crashed[i], "stack") {
				core.HarnessError("c17 worker crashed on %s: %s", key, crashed[i])
			}
			r.Fail(core.Failure{Key: key, Kind: kind, Detail: "goroutine stack exceeds the limit", What: "a long non-yielding stretch exhausts the stack", Replay: map[string]any{"stderr": crashed[i]}})
			continue
		}
		res := results[i]
		r.Add("transitions", lastOr(res.At, 0))
		if j.id == "P8210" {
			if len(res.Depth) > 0 {
				byDepth[j.params[0]] = res.Depth[0]
			}
			continue
		}
		m1, m2, m3, grows := rtcheck.Growth(res.At, res.Depth, lastOr(res.At, 0))
		if i%5 == 0 {
			r.Sample(map[string]any{"program": key, "yields": res.Yields, "probes": lastOr(res.At, 0), "depth_maxima_q1_q2_h2": []int{m1, m2, m3}})
		}
		if grows {
			r.Fail(core.Failure{Key: key, Kind: "stack-growth", Detail: "stack depth grows with the number of non-yielding iterations",
				What:   "call-stack depth inside the loop is not bounded independently of the iteration count",
				Replay: map[string]any{"max_depth_first_quarter": m1, "second_quarter": m2, "second_half": m3}})
		}
	}
	// delegation: at most linear in the nesting depth
	for _, d := range depths {
		if d >= 4 {
			a, b2, c := byDepth[d/4], byDepth[d/2], byDepth[d]
			if a > 0 && b2 > 0 && c > 0 && (c-b2) > 2*(b2-a)+16 {
				r.Fail(core.Failure{Key: fmt.Sprintf("loops:P8210(d=%d)", d), Kind: "superlinear-delegation", Detail: "stack depth grows faster than linearly with delegation depth",
					What: "delegation depth d needs more than O(d) stack", Replay: map[string]any{"depth_by_d": byDepth}})
			}
		}
	}
	r.Set("delegation_depth_by_d", fmt.Sprint(byDepth))
	r.Set("compiled_level", map[string]any{"programs": len(b.Meta.Registry), "n": ns, "k": "n (never yields inside) and 16"})
	r.Set("rule", "loop forms x non-yielding bodies (runtime level: every body term of size <= 3 under Loop/While/For; compiled level: corpus/loops.go.txt) x iteration counts; the depth (runtime.Callers) is sampled at probes 1..64 and around every power of two; invariant: the maxima over (0,N/4], (N/4,N/2], (N/2,N] are not strictly increasing; a fatal stack overflow in the worker is itself a violation")
	r.Assume("bounded in n by construction; extrapolation to larger n rests on the loop state at iteration i+1 having the same closure shape as at i")
	pipeline.Evict()
	return r
}

func firstLine(s string) string {
	for _, l := range strings.Split(s, "\n") {
		if strings.TrimSpace(l) != "" {
			return trunc(l, 200)
		}
	}
	return "(no output)"
}

func last(xs []int) int { return xs[len(xs)-1] }
func lastOr(xs []int, d int) int {
	if len(xs) == 0 {
		return d
	}
	return xs[len(xs)-1]
}
