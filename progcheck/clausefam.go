package progcheck

import (
	"fmt"
	"strings"

	"verif/pipeline"
)

// FORCLAUSE family (C01, C02, C18, C07, C11): the three clauses of a for statement in every statement
// form Go allows there x body shapes. The compiler hoists the init statement, turns condition and post
// into closures, and merges or combines body and post depending on what the body ends with.
//
//	init | cond | post | body
//
// SWFORM family: switch statements by position of the default clause x tag form x case expression
// form x what the clause bodies do besides yielding.
//
//	default | tag | cases | body

type clausePart struct{ name, text string }

var forInits = []clausePart{
	{"none", ""},
	{"define", "i := 0"},
	{"define2", "i, j := 0, 5"},
	{"assign", "i = 0"},
	{"call", "c.E(1)"},
	{"yield", "Yield(c.W(1, 100))"},
	{"definecall", "i := c.W(1, 0)"},
}

var forConds = []clausePart{
	{"cmp", "i < 3"},
	{"none", ""},
	{"call", "below3(c, i)"},
}

var forPosts = []clausePart{
	{"inc", "i++"},
	{"none", ""},
	{"addcall", "i += c.W(2, 1)"},
	{"tuple", "i, j = i+1, j-1"},
	{"call", "c.E(2)"},
	{"yield", "Yield(c.W(2, 200+i))"},
	{"yieldfrom", "YieldFrom(fcSub(c, i))"},
	{"closure", "func() { i++; c.E(2) }()"},
}

var forBodies = []clausePart{
	{"yield", "Yield(c.W(3, i))"},
	{"plain", "c.X(3, i)"},
	{"continue", "if i == 1 {\n\t\t\tcontinue\n\t\t}\n\t\tYield(c.W(3, i))"},
	{"break", "Yield(c.W(3, i))\n\t\tif i == 2 {\n\t\t\tbreak\n\t\t}"},
	{"declare", "i := i * 10\n\t\tYield(c.W(3, i))"},
	{"declareplain", "i := i * 10\n\t\tc.X(3, i)"},
	{"yieldthenplain", "Yield(c.W(3, i))\n\t\tc.X(4, i)"},
}

const clauseExtra = `package src

import (
	. "github.com/goghcrow/go-co"
	"verif/rt"
)

func below3(c *rt.Ctx, i int) bool { c.X(70, i); return i < 3 }

func fcSub(c *rt.Ctx, i int) Iter[int] {
	c.X(71, i)
	Yield(300 + i)
	c.X(72, i)
	return nil
}

func pick(c *rt.Ctx, id int) int { return c.I(id) }
`

func forClauseText(id string, in, cd, po, bd clausePart) string {
	var sb strings.Builder
	w := func(ind int, f string, a ...any) {
		sb.WriteString(strings.Repeat("\t", ind) + fmt.Sprintf(f, a...) + "\n")
	}
	w(0, "func %s_gen(c *rt.Ctx) Iter[int] {", id)
	w(1, "i, j := 0, 5")
	w(1, "_, _ = i, j")
	w(1, "c.E(0)")
	incInBody := po.name == "none" || po.name == "call" || po.name == "yield" || po.name == "yieldfrom"
	w(1, "for %s; %s; %s {", in.text, cd.text, po.text)
	if in.name == "define2" {
		w(2, "_ = j")
	}
	if incInBody {
		w(2, "i++")
	}
	if cd.name == "none" {
		w(2, "if i >= 3 {")
		w(3, "break")
		w(2, "}")
	}
	w(2, "%s", bd.text)
	w(1, "}")
	w(1, "c.X(9, i+j)")
	w(1, "Yield(c.W(5, i))")
	w(1, "return nil")
	w(0, "}")
	w(0, "")
	w(0, "func %s(c *rt.Ctx) {", id)
	w(1, "c.E(8)")
	w(1, "for v := range %s_gen(c) {", id)
	w(2, "c.X(90, v)")
	w(1, "}")
	w(0, "}")
	return sb.String()
}

func forClauseFamily(tier string) *FamilySpec {
	base := []string{"none", "cmp", "inc", "yield"}
	fs := &FamilySpec{Name: "FORCLAUSE", ShardSize: 150, Reductions: dimReductions(base)}
	fs.Template = pipeline.Spec{DeriveRef: true, SFiles: map[string]string{"extra.go": clauseExtra}, PerFile: 10}
	for _, in := range forInits {
		for _, cd := range forConds {
			for _, po := range forPosts {
				for _, bd := range forBodies {
					parts := []string{in.name, cd.name, po.name, bd.name}
					if tier != "thorough" && distance(parts, base) > 2 {
						continue
					}
					// all trivial: no yield anywhere in the loop leaves it a native loop (still a valid program)
					id := fmt.Sprintf("P%05d", len(fs.Progs))
					fs.Progs = append(fs.Progs, pipeline.Prog{ID: id, Key: strings.Join(parts, "|"), S: forClauseText(id, in, cd, po, bd), Proc: true})
				}
			}
		}
	}
	return fs
}

var swDefaults = []string{"last", "none", "first", "middle", "only"}

var swTags = []clausePart{
	{"value", "switch pick(c, 1) {"},
	{"none", "switch {"},
	{"init", "switch t := pick(c, 1); t {"},
	{"initnone", "switch t := pick(c, 1); {"},
	{"type", "switch anyOf(c, 1).(type) {"},
	{"typebind", "switch t := anyOf(c, 1).(type) {"},
	{"inittype", "switch u := anyOf(c, 1); t := u.(type) {"},
}

var swCases = []string{"single", "multi", "call", "overlap"}

var swBodies = []clausePart{
	{"yield", "Yield(c.W(%d, 1))"},
	{"yieldbreak", "Yield(c.W(%d, 1))\n\t\tif c.B(%d0) {\n\t\t\tbreak\n\t\t}\n\t\tYield(c.W(%d, 2))"},
	{"guardbreak", "if c.B(%d0) {\n\t\t\tbreak\n\t\t}\n\t\tYield(c.W(%d, 1))"},
	{"plain", "c.E(%d)"},
	{"empty", ""},
	{"return", "Yield(c.W(%d, 1))\n\t\treturn nil"},
	{"usebind", "Yield(c.W(%d, 1))\n\t\tc.X(%d1, t)"},
}

const swExtra = `package src

import (
	. "github.com/goghcrow/go-co"
	"verif/rt"
)

var _ Iter[int]

func anyOf(c *rt.Ctx, id int) any {
	switch c.I(id) {
	case 0:
		return 0
	case 1:
		return "one"
	}
	return nil
}

func is(c *rt.Ctx, id int, v bool) bool { c.X(id, v); return v }
`

func swFormText(id, def string, tag clausePart, cases string, bd clausePart) (string, bool) {
	isType := strings.Contains(tag.name, "type")
	hasBind := tag.name == "typebind" || tag.name == "inittype" || tag.name == "init" || tag.name == "initnone"
	if bd.name == "usebind" && !hasBind {
		return "", false
	}
	if isType && (cases == "call" || cases == "overlap") {
		return "", false
	}
	var sb strings.Builder
	w := func(ind int, f string, a ...any) {
		sb.WriteString(strings.Repeat("\t", ind) + fmt.Sprintf(f, a...) + "\n")
	}
	body := func(n int) {
		if bd.text == "" {
			return
		}
		k := strings.Count(bd.text, "%d")
		args := make([]any, k)
		for i := range args {
			args[i] = n
		}
		w(2, bd.text, args...)
	}
	w(0, "func %s_gen(c *rt.Ctx) Iter[int] {", id)
	w(1, "c.E(0)")
	w(1, "for n := 0; n < 2; n++ {")
	sw := "\t" + tag.text
	w(1, "%s", sw)
	noTag := tag.name == "none" || tag.name == "initnone"
	// clause heads
	var heads []string
	switch {
	case isType:
		if cases == "multi" {
			heads = []string{"case int, int8:", "case string, nil:"}
		} else {
			heads = []string{"case int:", "case string:"}
		}
	case noTag:
		v := "pick(c, 1)"
		if tag.name == "initnone" {
			v = "t"
		}
		switch cases {
		case "single":
			heads = []string{"case " + v + " == 0:", "case " + v + " == 1:"}
		case "multi":
			heads = []string{"case " + v + " == 0, " + v + " == 7:", "case " + v + " == 1, " + v + " == 8:"}
		case "call":
			heads = []string{"case is(c, 60, " + v + " == 0):", "case is(c, 61, " + v + " == 1):"}
		default:
			heads = []string{"case " + v + " == 0:", "case " + v + " <= 1:"}
		}
	default:
		switch cases {
		case "single":
			heads = []string{"case 0:", "case 1:"}
		case "multi":
			heads = []string{"case 0, 7:", "case 1, 8:"}
		case "call":
			heads = []string{"case c.W(60, 0):", "case c.W(61, 1):"}
		default:
			heads = []string{"case 0:", "case 1, 2:"}
		}
	}
	// the bound names must be used somewhere: in the first clause printed
	var uses []string
	if hasBind && bd.name != "usebind" {
		uses = append(uses, "_ = t")
	}
	if tag.name == "inittype" {
		uses = append(uses, "_ = u")
	}
	use := func() {
		for _, u := range uses {
			w(2, "%s", u)
		}
		uses = nil
	}
	emitDefault := func() {
		w(1, "default:")
		use()
		w(2, "c.E(40)")
		body(4)
	}
	switch def {
	case "first":
		emitDefault()
	case "only":
		emitDefault()
		heads = nil
	}
	for i, h := range heads {
		w(1, "%s", h)
		use()
		body(2 + i)
		if def == "middle" && i == 0 {
			emitDefault()
		}
	}
	if def == "last" {
		emitDefault()
	}
	w(1, "}")
	w(2, "Yield(c.W(5, n))")
	w(1, "}")
	w(1, "return nil")
	w(0, "}")
	w(0, "")
	w(0, "func %s(c *rt.Ctx) {", id)
	w(1, "c.E(8)")
	w(1, "for v := range %s_gen(c) {", id)
	w(2, "c.X(90, v)")
	w(1, "}")
	w(0, "}")
	return sb.String(), true
}

func swFormFamily(tier string) *FamilySpec {
	base := []string{"last", "value", "single", "yield"}
	fs := &FamilySpec{Name: "SWFORM", ShardSize: 150, Reductions: dimReductions(base)}
	fs.Template = pipeline.Spec{DeriveRef: true, SFiles: map[string]string{"extra.go": clauseExtra, "extra2.go": swExtra}, PerFile: 10}
	for _, def := range swDefaults {
		for _, tag := range swTags {
			for _, cs := range swCases {
				for _, bd := range swBodies {
					parts := []string{def, tag.name, cs, bd.name}
					if tier != "thorough" && distance(parts, base) > 2 {
						continue
					}
					id := fmt.Sprintf("P%05d", len(fs.Progs))
					txt, ok := swFormText(id, def, tag, cs, bd)
					if !ok {
						continue
					}
					fs.Progs = append(fs.Progs, pipeline.Prog{ID: id, Key: strings.Join(parts, "|"), S: txt, Proc: true})
				}
			}
		}
	}
	return fs
}
