package progcheck

import (
	"fmt"

	"verif/core"
	"verif/gen"
	"verif/pipeline"
)

func injectFamily(tier string) *FamilySpec {
	hi := 1
	if tier == "thorough" {
		hi = 2
	}
	bases := []gen.List{{}}
	bases = append(bases, gen.CFFull.Programs(1, hi)...)
	var lists []gen.List
	seen := map[string]bool{}
	for _, b := range bases {
		for _, x := range gen.InjectStmts() {
			for _, l := range gen.Insertions(gen.CFAll, b, x) {
				k := gen.Show(l)
				if seen[k] || !gen.CFAll.DirectYield(l) || gen.CFAll.Spins(l) {
					continue
				}
				seen[k] = true
				lists = append(lists, l)
			}
		}
	}
	fs := genFamily("INJECT", gen.CFAll, lists)
	fs.MustTypeCheck = false
	fs.Template.NoTmp = true
	return fs
}

// negativeControlFamily: the INJECT programs whose only special construct sits inside a nested plain
// closure (or is a yield-free native range loop): they belong to the supported subset, so C11 demands
// that they compile and build.
func negativeControlFamily(tier string) *FamilySpec {
	all := injectFamily(tier)
	fs := &FamilySpec{Name: "NC", Reductions: all.Reductions, Template: all.Template}
	for _, p := range all.Progs {
		if isNegativeControl(p.Key) {
			fs.Progs = append(fs.Progs, p)
		}
	}
	return fs
}

// rangeFuncFamily: a go 1.23 module; range-over-func is not supported, but a loop of that kind
// without a yield must be preserved as it is
func rangeFuncFamily() *FamilySpec {
	fs := HandFamily("RANGEFUNC", "rangefunc.go.txt")
	fs.Template.GoVer = "1.23"
	return fs
}

func rejectFamily() *FamilySpec {
	sp := handSpec("REJECT", "reject.go.txt")
	sp.NoRef, sp.DeriveRef, sp.NoTmp = true, false, true
	return &FamilySpec{Name: "REJECT", Progs: sp.Progs, Template: sp, ShardSize: 1000}
}

// C12 — unsupported constructs are rejected or preserved, never silently mistranslated.
func C12(tier string) *core.Report {
	r := core.NewReport("C12", tier)
	inj := HandFamily("INJECT-hand", "inject.go.txt")
	inj.Template.NoTmp = true
	inj.MustTypeCheck = false
	rf := rangeFuncFamily()
	rf.Template.NoTmp = true
	fams := []*FamilySpec{injectFamily(tier), inj, rf}
	verdicts := map[string]int{}
	for _, fr := range runFamilies(r, fams, tier) {
		// violation iff the program builds and behaves differently from the source
		for _, f := range fr.Divergences("lockstep", "panic", "lockstep-under-panic", "fatal", "nondet", "nondet-ref") {
			r.Fail(f)
		}
		for _, o := range fr.Outcomes {
			verdicts[o.Status]++
			if len(o.Key) > 2 && o.Status != "explored" && o.Status != "discarded" && (isNegativeControl(o.Key) || fr.Spec.Name == "RANGEFUNC") {
				r.Fail(core.Failure{Key: fr.Spec.Name + ":" + o.Key, Kind: "negative-control-" + o.Status, Detail: o.Sig,
					What: "a construct inside a nested plain closure, or a native loop that needs no translation, is rejected or breaks the build"})
			}
		}
	}
	// programs that must be rejected: acceptance (builds and links) is the violation
	for _, fr := range runFamilies(r, []*FamilySpec{rejectFamily()}, tier) {
		for _, o := range fr.Outcomes {
			verdicts["mustreject-"+o.Status]++
			if o.Status == "explored" || o.Status == "fatal" {
				r.Fail(core.Failure{Key: "REJECT:" + o.Key, Kind: "accepted", Detail: "a generator with an unsupported signature compiles and builds",
					What: "go-co accepts a generator it cannot translate instead of failing with a diagnostic", Replay: map[string]any{"generated": fr.source(o, "out")}})
			}
		}
	}
	r.Set("verdicts", verdicts)
	r.Set("rule", "every base program of the full control-flow grammar up to the size bound (and the empty base) x every statement position x one unsupported construct {goto over an effect / over a yield, labelled break / continue out of a nested loop, select, defer (plain, inside an if, inside a loop), fallthrough out of / into a yielding case, range over pointer-to-array, yield in an if initialiser, yield inside a plain closure} plus the same constructs inside nested plain closures as negative controls; hand-written: range over a type parameter, range over a pointer variable, wrong result signatures; verdict per program: rejected with a diagnostic / output does not build / builds - and then the marked log must equal the reference's")
	commonAssumptions(r)
	r.Assume("`go Yield(v)` is excluded: the source has no defined reference behaviour for a yield on another goroutine")
	return r
}

func isNegativeControl(key string) bool {
	l, err := gen.Parse(key)
	if err != nil {
		return false
	}
	return hasNC(l) && !hasX(l)
}

func hasNC(l gen.List) bool {
	for _, s := range l {
		if len(s.K) > 1 && s.K[0] == 'N' && s.K != "N" {
			switch s.K {
			case "NGoto", "NLbl", "NLbl3", "NLoopCapture", "NSelectBreak", "NRangePtrBrk", "NSelect", "NDefer", "NFall", "NRangePtrArr":
				return true
			}
		}
		for _, ch := range s.Ch {
			if hasNC(ch) {
				return true
			}
		}
	}
	return false
}

func hasX(l gen.List) bool {
	for _, s := range l {
		if len(s.K) > 1 && s.K[0] == 'X' {
			return true
		}
		for _, ch := range s.Ch {
			if hasX(ch) {
				return true
			}
		}
	}
	return false
}

var _ = fmt.Sprint
var _ = pipeline.Evict
