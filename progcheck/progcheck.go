// Package progcheck wires families of generated programs through the pipeline and evaluates the
// program-level properties on the outcomes.
package progcheck

import (
	"fmt"
	"go/parser"
	"go/token"
	"os"
	"path/filepath"
	"runtime"
	"sort"
	"strconv"
	"strings"
	"sync"
	"time"

	"verif/core"
	"verif/harness"
	"verif/pipeline"
)

// FamilySpec is one family instantiated for a tier.
type FamilySpec struct {
	Name       string
	Progs      []pipeline.Prog
	Reductions func(key string) []string
	Template   pipeline.Spec // imports, extras, go version (Progs/Name filled per shard)
	ShardSize  int
	// MustTypeCheck: every program is claimed valid Go; a native build failure is a harness error.
	MustTypeCheck bool
}

type Outcome struct {
	ID, Key string
	Status  string // explored | rejected | unbuildable | discarded | fatal
	Sig     string
	Msg     string
	Res     *harness.Result
	Shard   string
	TmpBad  string
}

type FamilyRun struct {
	Spec     *FamilySpec
	Outcomes []*Outcome
	ByKey    map[string]*Outcome
	Shards   []*pipeline.Built
	HookDiff []string
	Wall     float64
}

type Tier struct {
	Name string
	Opts pipeline.RunOpts
}

func TierOf(name string) Tier {
	if name == "thorough" {
		return Tier{"thorough", pipeline.RunOpts{D: 8, F: 64, H: 32, Cap: 4000, Inject: true}}
	}
	return Tier{"quick", pipeline.RunOpts{D: 6, F: 48, H: 24, Cap: 20000, Inject: true}}
}

var buildSem = make(chan struct{}, maxParallel())

func maxParallel() int {
	n := runtime.NumCPU() * 3 / 4
	if n < 2 {
		n = 2
	}
	return n
}

// Deadline is the wall-clock budget of one check; when it passes, remaining shards are skipped
// and the run is reported as not exhaustive (never as an alarm).
var Deadline time.Time

// RunFamily builds and explores all shards of a family in parallel.
func RunFamily(fs *FamilySpec, t Tier) (*FamilyRun, []string) {
	start := time.Now()
	size := fs.ShardSize
	if size == 0 {
		size = 250
	}
	type shardRes struct {
		built   *pipeline.Built
		results []harness.Result
		err     error
		skipped bool
	}
	n := (len(fs.Progs) + size - 1) / size
	res := make([]shardRes, n)
	var wg sync.WaitGroup
	for i := 0; i < n; i++ {
		i := i
		wg.Add(1)
		go func() {
			defer wg.Done()
			buildSem <- struct{}{}
			defer func() { <-buildSem }()
			if !Deadline.IsZero() && time.Now().After(Deadline) {
				res[i].skipped = true
				return
			}
			sp := fs.Template
			sp.Name = fmt.Sprintf("%s/%s/%03d", fs.Name, t.Name, i)
			j := (i + 1) * size
			if j > len(fs.Progs) {
				j = len(fs.Progs)
			}
			sp.Progs = fs.Progs[i*size : j]
			b, err := pipeline.Build(&sp)
			if err != nil {
				res[i].err = err
				return
			}
			res[i].built = b
			r, err := pipeline.RunWorker(b, t.Opts)
			res[i].results, res[i].err = r, err
		}()
	}
	wg.Wait()
	fr := &FamilyRun{Spec: fs, ByKey: map[string]*Outcome{}}
	var notes []string
	skipped := 0
	for i := 0; i < n; i++ {
		r := res[i]
		if r.skipped {
			skipped++
			continue
		}
		if r.err != nil {
			core.HarnessError("family %s shard %d: %v", fs.Name, i, r.err)
		}
		fr.Shards = append(fr.Shards, r.built)
		m := r.built.Meta
		byID := map[string]*harness.Result{}
		for k := range r.results {
			byID[r.results[k].ID] = &r.results[k]
		}
		for _, f := range m.HookDiffers {
			fr.HookDiff = append(fr.HookDiff, m.Name+":"+f)
		}
		j := (i + 1) * size
		if j > len(fs.Progs) {
			j = len(fs.Progs)
		}
		for _, p := range fs.Progs[i*size : j] {
			o := &Outcome{ID: p.ID, Key: p.Key, Shard: r.built.Dir}
			switch {
			case m.Discarded[p.ID] != "":
				o.Status, o.Msg = "discarded", m.Discarded[p.ID]
				if fs.MustTypeCheck {
					core.HarnessError("family %s: generated program %s %s does not type-check as plain Go: %s", fs.Name, p.ID, p.Key, o.Msg)
				}
			case m.Rejected[p.ID].Sig != "":
				o.Status, o.Sig, o.Msg = "rejected", m.Rejected[p.ID].Sig, m.Rejected[p.ID].Message
			case m.Unbuildable[p.ID] != "":
				o.Status, o.Sig = "unbuildable", m.Unbuildable[p.ID]
			default:
				rr := byID[p.ID]
				if rr == nil {
					core.HarnessError("family %s: no worker result for %s", fs.Name, p.ID)
				}
				o.Res = rr
				o.Status = "explored"
				if rr.Fatal != "" {
					o.Status, o.Sig = "fatal", rr.Fatal
				}
			}
			o.TmpBad = m.TmpUnbuild[p.ID]
			fr.Outcomes = append(fr.Outcomes, o)
			fr.ByKey[o.Key] = o
		}
	}
	if skipped > 0 {
		notes = append(notes, fmt.Sprintf("family %s: %d of %d shards skipped at the check's internal deadline", fs.Name, skipped, n))
	}
	fr.Wall = time.Since(start).Seconds()
	return fr, notes
}

// Account adds the family's exploration counters to the report.
func (fr *FamilyRun) Account(r *core.Report) {
	st := map[string]int{}
	capped := 0
	for _, o := range fr.Outcomes {
		st[o.Status]++
		if o.Res != nil {
			r.Add("states", o.Res.Nodes)
			r.Add("transitions", o.Res.Events)
			r.Add("traces_validated_against_impl", o.Res.Execs)
			r.Add("distinct_observed_logs", o.Res.Distinct)
			if o.Res.Capped {
				capped++
			}
		}
	}
	r.Add("programs", len(fr.Outcomes))
	fam := map[string]any{"programs": len(fr.Outcomes), "wall_s": int(fr.Wall)}
	for k, v := range st {
		fam[k] = v
		r.Add("programs_"+k, v)
	}
	if capped > 0 {
		fam["path_cap_hit"] = capped
		r.NotExhaustive(fmt.Sprintf("family %s: %d programs hit the per-program path cap", fr.Spec.Name, capped))
	}
	fams, _ := r.Coverage["families"].(map[string]any)
	if fams == nil {
		fams = map[string]any{}
	}
	fams[fr.Spec.Name] = fam
	r.Set("families", fams)
	// samples: a few explored programs with one of their logs
	k := 0
	for i, o := range fr.Outcomes {
		if o.Res != nil && len(o.Res.Sample) > 0 && i%(len(fr.Outcomes)/3+1) == (len(fr.Outcomes)/3+1)/2 {
			r.Sample(map[string]any{"family": fr.Spec.Name, "program": o.Key, "answers": o.Res.SampleA, "reference_log": o.Res.Sample})
			k++
		}
	}
}

// Divergences turns exploration failures of the given classes into root failures.
func (fr *FamilyRun) Divergences(classes ...string) []core.Failure {
	want := map[string]bool{}
	for _, c := range classes {
		want[c] = true
	}
	var fails []core.Failure
	for _, o := range fr.Outcomes {
		if o.Status == "fatal" && want["fatal"] {
			kind := "hang"
			if strings.HasPrefix(o.Sig, "crash") {
				kind = "crash"
			} else if strings.HasPrefix(o.Sig, "nondet") {
				kind = "harness-nondeterminism"
			}
			fails = append(fails, core.Failure{Key: fr.Spec.Name + ":" + o.Key, Kind: kind, Detail: o.Sig,
				What:   "the compiled program hangs or crashes the worker where the reference does not",
				Replay: map[string]any{"shard": o.Shard, "id": o.ID}})
			continue
		}
		if o.Res == nil {
			continue
		}
		hasLockstep := false
		for _, f := range o.Res.Fails {
			if f.Class == "lockstep" {
				hasLockstep = true
			}
		}
		for _, f := range o.Res.Fails {
			if !want[f.Class] {
				continue
			}
			if want["lockstep"] && hasLockstep && (f.Class == "panic" || f.Class == "lockstep-under-panic") {
				continue // the panic-free path already diverges: the injected runs only repeat that
			}
			fails = append(fails, core.Failure{
				Key:    fr.Spec.Name + ":" + o.Key,
				Kind:   "divergence:" + f.Class,
				Detail: f.Detail,
				What:   what(f.Class),
				Replay: map[string]any{"shard": o.Shard, "id": o.ID, "answers": f.Ans, "panic_at": f.PanicAt, "reference": f.Ref, "impl": f.Out,
					"source": fr.source(o, "src"), "generated": fr.source(o, "out")},
			})
		}
	}
	return fr.roots(fails)
}

func what(class string) string {
	switch class {
	case "values":
		return "compiled generator delivers a different value sequence than the source on the reference coroutine"
	case "lockstep":
		return "effects run in a different consumer call / order than in the source"
	case "panic", "lockstep-under-panic":
		return "an injected panic surfaces from a different consumer call or with a different value"
	case "opt":
		return "optimised output behaves differently from the unoptimised stage"
	case "nondet", "nondet-ref":
		return "execution is not reproducible (harness nondeterminism)"
	}
	return class
}

func (fr *FamilyRun) roots(fails []core.Failure) []core.Failure {
	pre := fr.Spec.Name + ":"
	return core.Roots(fails, func(key string) []string {
		if fr.Spec.Reductions == nil {
			return nil
		}
		rs := fr.Spec.Reductions(strings.TrimPrefix(key, pre))
		for i := range rs {
			rs[i] = pre + rs[i]
		}
		return rs
	})
}

// CompileFailures: rejected and unbuildable programs (C11's subject).
func (fr *FamilyRun) CompileFailures() []core.Failure {
	var fails []core.Failure
	for _, o := range fr.Outcomes {
		switch o.Status {
		case "rejected":
			fails = append(fails, core.Failure{Key: fr.Spec.Name + ":" + o.Key, Kind: "compile-panic", Detail: o.Sig,
				What:   "go-co panics on a program of the supported subset",
				Replay: map[string]any{"message": o.Msg, "source": fr.source(o, "src")}})
		case "unbuildable":
			fails = append(fails, core.Failure{Key: fr.Spec.Name + ":" + o.Key, Kind: "unbuildable", Detail: o.Sig,
				What:   "go-co's output does not compile",
				Replay: map[string]any{"source": fr.source(o, "src"), "generated": fr.source(o, "out")}})
		}
	}
	return fr.roots(fails)
}

// source extracts the text of one program from a shard's kept sources.
func (fr *FamilyRun) source(o *Outcome, sub string) string {
	return pipeline.ProgramText(o.Shard, sub, o.ID)
}

func SortedKeys[V any](m map[string]V) []string {
	ks := make([]string, 0, len(m))
	for k := range m {
		ks = append(ks, k)
	}
	sort.Strings(ks)
	return ks
}

func init() {
	if d := os.Getenv("VERIF_DEADLINE_S"); d != "" {
		var s int
		fmt.Sscan(d, &s)
		if s > 0 {
			Deadline = time.Now().Add(time.Duration(s) * time.Second)
		}
	}
}

// BlankImportsDropped compares, file by file, the side-effect imports (`_ "path"`) of the source
// with those of the generated file: dropping one removes the package's init effects.
func (fr *FamilyRun) BlankImportsDropped() []core.Failure {
	var fails []core.Failure
	for _, b := range fr.Shards {
		files, _ := filepath.Glob(filepath.Join(b.Dir, "src", "*.go"))
		for _, f := range files {
			srcBlank := blankImports(f)
			if len(srcBlank) == 0 {
				continue
			}
			outFile := filepath.Join(b.Dir, "out", filepath.Base(f))
			if _, err := os.Stat(outFile); err != nil {
				continue // rejected or not a processed file
			}
			outBlank := map[string]bool{}
			for _, p := range blankImports(outFile) {
				outBlank[p] = true
			}
			for _, p := range srcBlank {
				if !outBlank[p] {
					fails = append(fails, core.Failure{Key: fr.Spec.Name + ":" + filepath.Base(f) + ":_ " + p, Kind: "import-dropped",
						Detail: "side-effect import removed", What: "a side-effect import of the source file is missing in the generated file, so the package's init no longer runs",
						Replay: map[string]any{"source_file": f, "generated_file": outFile}})
				}
			}
		}
	}
	return fails
}

func blankImports(file string) []string {
	fset := token.NewFileSet()
	af, err := parser.ParseFile(fset, file, nil, parser.ImportsOnly)
	if err != nil {
		return nil
	}
	var out []string
	for _, im := range af.Imports {
		if im.Name != nil && im.Name.Name == "_" {
			p, _ := strconv.Unquote(im.Path.Value)
			out = append(out, p)
		}
	}
	return out
}

// DirectivesDropped compares, file by file, the compiler directives (`//go:embed`, `//go:noinline`,
// `//go:linkname`, `//go:generate` excluded) of the source with those of the generated file: a
// directive changes how the declaration it is attached to behaves, so losing it changes a bystander.
func (fr *FamilyRun) DirectivesDropped() []core.Failure {
	var fails []core.Failure
	for _, b := range fr.Shards {
		files, _ := filepath.Glob(filepath.Join(b.Dir, "src", "*.go"))
		for _, f := range files {
			want := directives(f)
			if len(want) == 0 {
				continue
			}
			outFile := filepath.Join(b.Dir, "out", filepath.Base(f))
			if _, err := os.Stat(outFile); err != nil {
				continue
			}
			have := map[string]int{}
			for _, d := range directives(outFile) {
				have[d]++
			}
			for _, d := range want {
				if have[d] == 0 {
					fails = append(fails, core.Failure{Key: fr.Spec.Name + ":" + filepath.Base(f) + ":" + d, Kind: "directive-dropped",
						Detail: "compiler directive removed", What: "a compiler directive attached to a declaration of the source file is missing in the generated file",
						Replay: map[string]any{"source_file": f, "generated_file": outFile}})
				} else {
					have[d]--
				}
			}
		}
	}
	return fails
}

func directives(file string) []string {
	b, err := os.ReadFile(file)
	if err != nil {
		return nil
	}
	var out []string
	for _, l := range strings.Split(string(b), "\n") {
		l = strings.TrimSpace(l)
		if strings.HasPrefix(l, "//go:") && !strings.HasPrefix(l, "//go:build") && !strings.HasPrefix(l, "//go:generate") {
			out = append(out, l)
		}
	}
	return out
}
