package progcheck

import (
	"fmt"
	"strings"

	"verif/core"
	"verif/pipeline"
)

// RANGE family (C04): a product of dimensions rather than a tree grammar.
//
//	kind | form | tok | place | operand | script | value | ctl
//
// The reference is the same text with the native range statement (derived by deriveref).

type rdim struct {
	name   string
	values []string // values[0] is the baseline used by reductions
}

type rangeKind struct {
	name    string
	keyT    string
	valT    string
	forms   []string // kv k _v k_ none
	values  map[string]string
	vorder  []string
	scripts map[string]string // script name -> statement (uses xs, n, k)
	sorder  []string
	after   string // expression observed after the loop
}

var rangeKinds = []rangeKind{
	{name: "slice", keyT: "int", valT: "int", forms: []string{"kv", "k", "_v", "k_", "none", "kdep"},
		values:  map[string]string{"three": "[]int{1, 2, 3}", "nil": "[]int(nil)", "empty": "[]int{}", "one": "[]int{7}", "spare": "append(make([]int, 0, 8), 1, 2, 3)"},
		vorder:  []string{"three", "nil", "empty", "one", "spare"},
		scripts: map[string]string{"none": "", "append": "xs = append(xs, 9)", "ahead": "if len(xs) > 2 { xs[2] = 100 }", "behind": "xs[0] = 200", "reslice": "xs = xs[:1]", "setnil": "xs = nil"},
		sorder:  []string{"none", "append", "ahead", "behind", "reslice", "setnil"},
		after:   "fmt.Sprint(xs)"},
	{name: "array", keyT: "int", valT: "int", forms: []string{"kv", "k", "_v", "k_", "none"},
		values:  map[string]string{"three": "[3]int{1, 2, 3}", "zero": "[3]int{}"},
		vorder:  []string{"three", "zero"},
		scripts: map[string]string{"none": "", "ahead": "xs[2] = 100", "behind": "xs[0] = 200"},
		sorder:  []string{"none", "ahead", "behind"},
		after:   "fmt.Sprint(xs)"},
	{name: "string", keyT: "int", valT: "rune", forms: []string{"kv", "k", "_v", "k_", "none", "kdep"},
		values:  map[string]string{"mixed": `"aé€"`, "empty": `""`, "ascii": `"ab"`, "invalid": `"\xff\xc3"`, "truncated": `"é\xe2\x82z"`},
		vorder:  []string{"mixed", "empty", "ascii", "invalid", "truncated"},
		scripts: map[string]string{"none": "", "reassign": `xs = "zz"`},
		sorder:  []string{"none", "reassign"},
		after:   "fmt.Sprintf(\"%q\", xs)"},
	{name: "map", keyT: "string", valT: "int", forms: []string{"kv", "k", "_v", "k_", "none"},
		values:  map[string]string{"one": `map[string]int{"a": 1}`, "nil": "map[string]int(nil)", "empty": "map[string]int{}", "three": `map[string]int{"a": 1, "b": 2, "c": 3}`},
		vorder:  []string{"one", "nil", "empty", "three"},
		scripts: map[string]string{"none": "", "delothers": `for _, o := range []string{"a", "b", "c"} { if !seen[o] { delete(xs, o) } }`, "delall": `for _, o := range []string{"a", "b", "c"} { delete(xs, o) }`},
		sorder:  []string{"none", "delothers", "delall"},
		after:   "len(xs)"},
	{name: "mapany", keyT: "any", valT: "any", forms: []string{"kv", "k", "_v"},
		values:  map[string]string{"nilnil": "map[any]any{nil: nil}", "nilval": `map[any]any{"a": nil}`, "nilkey": "map[any]any{nil: 1}"},
		vorder:  []string{"nilnil", "nilval", "nilkey"},
		scripts: map[string]string{"none": ""},
		sorder:  []string{"none"},
		after:   "len(xs)"},
	{name: "mapnan", keyT: "float64", valT: "int", forms: []string{"kv", "k", "_v", "none"},
		values:  map[string]string{"nan1": "map[float64]int{math.NaN(): 1}", "nan2": "map[float64]int{math.NaN(): 1, math.Inf(1): 1, math.NaN(): 1}"},
		vorder:  []string{"nan1", "nan2"},
		scripts: map[string]string{"none": ""},
		sorder:  []string{"none"},
		after:   "len(xs)"},
	{name: "chan", keyT: "int", valT: "", forms: []string{"k", "none"},
		values:  map[string]string{"zeros": "mkchan(0, 1, 0)", "empty": "mkchan()", "one": "mkchan(5)"},
		vorder:  []string{"zeros", "empty", "one"},
		scripts: map[string]string{"none": ""},
		sorder:  []string{"none"},
		after:   "len(xs)"},
	// operands of named types: the kind is decided by the underlying type, the constructors must accept them
	{name: "nslice", keyT: "int", valT: "int", forms: []string{"kv", "k", "none"},
		values:  map[string]string{"three": "IDs{1, 2, 3}", "nil": "IDs(nil)"},
		vorder:  []string{"three", "nil"},
		scripts: map[string]string{"none": "", "ahead": "if len(xs) > 2 { xs[2] = 100 }"},
		sorder:  []string{"none", "ahead"},
		after:   "fmt.Sprint(xs)"},
	{name: "nstring", keyT: "int", valT: "rune", forms: []string{"kv", "k", "none"},
		values:  map[string]string{"mixed": `Name("aé€")`, "empty": `Name("")`},
		vorder:  []string{"mixed", "empty"},
		scripts: map[string]string{"none": ""},
		sorder:  []string{"none"},
		after:   "fmt.Sprintf(\"%q\", xs)"},
	{name: "nmap", keyT: "string", valT: "int", forms: []string{"kv", "k", "none"},
		values:  map[string]string{"one": `Dict{"a": 1}`, "nil": "Dict(nil)"},
		vorder:  []string{"one", "nil"},
		scripts: map[string]string{"none": "", "delall": `delete(xs, "a")`},
		sorder:  []string{"none", "delall"},
		after:   "len(xs)"},
	{name: "nchan", keyT: "int", valT: "", forms: []string{"k", "none"},
		values:  map[string]string{"zeros": "Pipe(mkchan(0, 1, 0))", "empty": "Pipe(mkchan())"},
		vorder:  []string{"zeros", "empty"},
		scripts: map[string]string{"none": ""},
		sorder:  []string{"none"},
		after:   "len(xs)"},
	{name: "narray", keyT: "int", valT: "int", forms: []string{"kv", "k", "none"},
		values:  map[string]string{"three": "Arr{1, 2, 3}"},
		vorder:  []string{"three"},
		scripts: map[string]string{"none": ""},
		sorder:  []string{"none"},
		after:   "fmt.Sprint(xs)"},
	{name: "int64", keyT: "int64", valT: "", forms: []string{"k", "none"},
		values:  map[string]string{"three": "int64(3)", "neg": "int64(-1)"},
		vorder:  []string{"three", "neg"},
		scripts: map[string]string{"none": "", "reassign": "xs = 10"},
		sorder:  []string{"none", "reassign"},
		after:   "xs"},
	{name: "uint8", keyT: "uint8", valT: "", forms: []string{"k", "none"},
		values:  map[string]string{"three": "uint8(3)", "zero": "uint8(0)", "max": "uint8(255)"},
		vorder:  []string{"three", "zero", "max"},
		scripts: map[string]string{"none": ""},
		sorder:  []string{"none"},
		after:   "xs"},
	{name: "uint64", keyT: "uint64", valT: "", forms: []string{"k", "none"},
		values:  map[string]string{"three": "uint64(3)", "huge": "uint64(1) << 63"}, // above MaxInt64: executions end by break or by fuel
		vorder:  []string{"three", "huge"},
		scripts: map[string]string{"none": ""},
		sorder:  []string{"none"},
		after:   "xs"},
	{name: "nint", keyT: "Count", valT: "", forms: []string{"k", "none"},
		values:  map[string]string{"three": "Count(3)", "zero": "Count(0)"},
		vorder:  []string{"three", "zero"},
		scripts: map[string]string{"none": ""},
		sorder:  []string{"none"},
		after:   "xs"},
	{name: "int", keyT: "int", valT: "", forms: []string{"k", "none"},
		values:  map[string]string{"three": "3", "zero": "0", "neg": "-1"},
		vorder:  []string{"three", "zero", "neg"},
		scripts: map[string]string{"none": "", "reassign": "xs = 10"},
		sorder:  []string{"none", "reassign"},
		after:   "xs"},
}

var (
	rToks = []string{":=", "="}
	// yielding body | non-yielding loop | loop inside a closure | nested in another yielding range |
	// labelled loop inside a closure | loop inside a closure with a goto jumping over it
	rPlaces   = []string{"A", "B", "C", "D", "E", "F"}
	rOperands = []string{"bare", "wrapped"}
	rCtls     = []string{"none", "brk", "cont"}
)

type rangeProg struct {
	kind                                          *rangeKind
	form, tok, place, operand, script, value, ctl string
}

func (p rangeProg) key() string {
	return strings.Join([]string{p.kind.name, p.form, p.tok, p.place, p.operand, p.script, p.value, p.ctl}, "|")
}

// text renders the S source of one program.
func (p rangeProg) text(id string) string {
	k := p.kind
	var sb strings.Builder
	w := func(ind int, f string, a ...any) {
		sb.WriteString(strings.Repeat("\t", ind) + fmt.Sprintf(f, a...) + "\n")
	}
	w(0, "func %s(c *rt.Ctx) Iter[int] {", id)
	w(1, "xs := %s", k.values[p.value])
	w(1, "_ = xs")
	isMap := k.name == "map" || k.name == "mapany" || k.name == "mapnan"
	hasK := p.form == "kv" || p.form == "k" || p.form == "k_" || p.form == "kdep"
	hasV := p.form == "kv" || p.form == "_v"
	var hdr string
	switch p.form {
	case "kv":
		hdr = "k, v " + p.tok
	case "k":
		hdr = "k " + p.tok
	case "_v":
		hdr = "_, v " + p.tok
	case "k_":
		hdr = "k, _ " + p.tok
	case "none":
		hdr = ""
	case "kdep":
		// the second operand depends on the first: as in an assignment, its index is evaluated
		// before the key is assigned
		hdr = "k, dst[k%8] " + p.tok
	}
	if p.tok == "=" {
		if hasK {
			w(1, "var k %s", k.keyT)
		}
		if hasV {
			w(1, "var v %s", k.valT)
		}
	}
	if p.form == "kdep" {
		w(1, "dst := make([]%s, 8)", k.valT)
	}
	w(1, "n := 0")
	if p.value == "max" {
		w(1, "last := -1")
		w(1, "_ = last")
	}
	if isMap {
		w(1, "seen := map[string]bool{}")
		w(1, "_ = seen")
	}
	operand := "xs"
	if p.operand == "wrapped" {
		operand = "rt.S(c, 1, xs)"
	}
	ind := 1
	switch p.place {
	case "C":
		w(1, "func() {")
		ind = 2
	case "E":
		w(1, "func() {")
		w(1, "outer:")
		ind = 2
	case "F":
		w(1, "func() {")
		w(2, "if n > 99 {")
		w(3, "goto end")
		w(2, "}")
		ind = 2
	case "D":
		w(1, "for _, o := range []int{10, 20} {")
		w(2, "c.X(8, o)")
		ind = 2
	}
	w(ind, "for %s range %s {", hdr, operand)
	w(ind+1, "n++")
	if p.place == "E" {
		w(ind+1, "if n > 99 {")
		w(ind+2, "continue outer")
		w(ind+1, "}")
	}
	if p.value == "max" {
		// the whole value range of the type: only the count and the last key are observed (after the loop)
		if hasK {
			w(ind+1, "last = int(k)")
		}
		w(ind, "}")
		w(1, "c.X(5, fmt.Sprint(n, last))")
		w(1, "Yield(c.V(6))")
		w(1, "return nil")
		w(0, "}")
		return sb.String()
	}
	uses := []string{}
	if hasK {
		uses = append(uses, "k")
	}
	if hasV {
		uses = append(uses, "v")
	}
	if isMap && (k.name == "map" || k.name == "mapnan") {
		// iteration order is unspecified: per-iteration observations must not depend on it
		if hasK && k.name == "map" {
			w(ind+1, "seen[k] = true")
		}
		if len(uses) > 0 {
			w(ind+1, "_, _ = %s, %s", uses[0], uses[len(uses)-1])
		}
		w(ind+1, "c.E(2)")
	} else if len(uses) > 0 {
		w(ind+1, "c.X(2, fmt.Sprint(%s))", strings.Join(uses, ", "))
	} else {
		w(ind+1, "c.E(2)")
	}
	if s := k.scripts[p.script]; s != "" {
		w(ind+1, "if n == 1 {")
		w(ind+2, "%s", s)
		w(ind+1, "}")
	}
	switch p.ctl {
	case "brk":
		w(ind+1, "if c.B(3) {")
		w(ind+2, "break")
		w(ind+1, "}")
	case "cont":
		w(ind+1, "if c.B(3) {")
		w(ind+2, "continue")
		w(ind+1, "}")
	}
	if p.place == "A" || p.place == "D" {
		w(ind+1, "Yield(c.V(4))")
	} else {
		w(ind+1, "c.E(4)")
	}
	w(ind, "}")
	switch p.place {
	case "C", "E":
		w(1, "}()")
	case "F":
		w(1, "end:")
		w(2, "c.E(7)")
		w(1, "}()")
	case "D":
		w(1, "}")
	}
	// observations after the loop: iteration count, the '=' variables, the collection
	obs := []string{"n"}
	if p.tok == "=" && !(isMap && (k.name == "map" && p.value == "three" || k.name == "mapnan")) {
		if hasK {
			obs = append(obs, "k")
		}
		if hasV {
			obs = append(obs, "v")
		}
	} else if p.tok == "=" {
		if hasK {
			w(1, "_ = k")
		}
		if hasV {
			w(1, "_ = v")
		}
	}
	if !(k.name == "map" && p.value == "three" && p.script == "delothers") {
		obs = append(obs, k.after)
	}
	if p.form == "kdep" {
		obs = append(obs, "fmt.Sprint(dst)")
	}
	w(1, "c.X(5, fmt.Sprint(%s))", strings.Join(obs, ", "))
	w(1, "Yield(c.V(6))")
	w(1, "return nil")
	w(0, "}")
	return sb.String()
}

const rangeExtra = `package src

type IDs []int
type Name string
type Dict map[string]int
type Pipe <-chan int
type Arr [3]int
type Count int

func mkchan(vs ...int) chan int {
	ch := make(chan int, len(vs)+1)
	for _, v := range vs {
		ch <- v
	}
	close(ch)
	return ch
}
`

// rangePrograms enumerates the product; quick restricts some dimensions.
func rangePrograms(tier string, goInt bool) []rangeProg {
	var out []rangeProg
	for i := range rangeKinds {
		k := &rangeKinds[i]
		if isIntKind(k.name) != goInt {
			continue
		}
		values, scripts, places, ctls := k.vorder, k.sorder, rPlaces, rCtls
		_ = places
		for _, form := range k.forms {
			for _, tok := range rToks {
				if form == "none" && tok == "=" || form == "kdep" && tok == ":=" {
					continue
				}
				for _, place := range places {
					for _, op := range rOperands {
						for _, sc := range scripts {
							for _, v := range values {
								for _, ctl := range ctls {
									if tier != "thorough" {
										// quick: every configuration within distance 2 of the kind's baseline
										d := 0
										for _, ne := range []bool{form != k.forms[0], tok != ":=", place != "A", op != "bare", sc != "none", v != k.vorder[0], ctl != "none"} {
											if ne {
												d++
											}
										}
										if d > 2 {
											continue
										}
									}
									if v == "max" && (place != "B" || ctl != "none" || sc != "none") {
										continue // the quiet whole-range loop exists in one placement only
									}
									if k.name == "map" && v == "three" && sc == "none" && ctl == "brk" {
										// which entries are seen before a break depends on the order; n is still determined by the answers
									}
									out = append(out, rangeProg{k, form, tok, place, op, sc, v, ctl})
								}
							}
						}
					}
				}
			}
		}
	}
	return out
}

func isIntKind(name string) bool {
	return name == "int" || name == "int64" || name == "uint8" || name == "nint" || name == "uint64"
}

// rangeReductions: move one dimension to its baseline.
func rangeReductions(key string) []string {
	parts := strings.Split(key, "|")
	if len(parts) != 8 {
		return nil
	}
	var k *rangeKind
	for i := range rangeKinds {
		if rangeKinds[i].name == parts[0] {
			k = &rangeKinds[i]
		}
	}
	if k == nil {
		return nil
	}
	base := []string{parts[0], k.forms[0], ":=", "A", "bare", "none", k.vorder[0], "none"}
	var out []string
	for i := 1; i < 8; i++ {
		if parts[i] != base[i] {
			q := append([]string{}, parts...)
			q[i] = base[i]
			out = append(out, strings.Join(q, "|"))
		}
	}
	return out
}

func rangeFamily(name, tier string, goInt bool) *FamilySpec {
	fs := &FamilySpec{Name: name, Reductions: rangeReductions, ShardSize: 60}
	fs.Template = pipeline.Spec{DeriveRef: true, NoTmp: true, PerFile: 6, SImports: []string{`"fmt"`, `"math"`}, SHeaderDecl: "var _ = math.NaN\n\n", SFiles: map[string]string{"extra.go": rangeExtra}}
	if goInt {
		fs.Template.GoVer = "1.22"
		fs.Template.SFiles = nil
	}
	for _, p := range rangePrograms(tier, goInt) {
		id := fmt.Sprintf("P%05d", len(fs.Progs))
		fs.Progs = append(fs.Progs, pipeline.Prog{ID: id, Key: p.key(), S: p.text(id)})
	}
	return fs
}

// C04 — range loops inside generators behave like Go's range statement.
func C04(tier string) *core.Report {
	r := core.NewReport("C04", tier)
	fams := []*FamilySpec{rangeFamily("RANGE", tier, false), rangeFamily("RANGE-int", tier, true)}
	for _, fr := range runFamilies(r, fams, tier) {
		for _, f := range fr.Divergences("lockstep", "panic", "lockstep-under-panic", "fatal", "nondet", "nondet-ref") {
			r.Fail(f)
		}
		for _, f := range fr.CompileFailures() {
			r.Fail(f)
		}
	}
	r.Set("rule", "product family kind{slice,array,string,map,map[any]any,chan,int} x variable form{k,v | k | _,v | k,_ | none} x {:=,=} x placement{yielding body, non-yielding loop in a generator, loop inside a closure nested in the generator, nested in another yielding range} x operand{variable, call result rt.S(c,1,xs) logging its single evaluation} x mutation script at the first iteration x collection value x guarded break/continue; the reference contains the native range statement; a state is (program, answer prefix)")
	commonAssumptions(r)
	r.Assume("map iteration order is unspecified: programs over maps with several entries log only order-independent observations (count, the spec-determined effect of deleting entries not yet produced)")
	r.Assume("range over an integer needs language version go1.22: that sub-family is built in a go 1.22 module")
	return r
}

var _ = core.Root
