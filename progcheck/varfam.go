package progcheck

import (
	"fmt"

	"verif/core"
	"verif/gen"
	"verif/pipeline"
)

func varFamily(name string, lists []gen.List, gover string) *FamilySpec {
	fs := &FamilySpec{Name: name, Reductions: reductionsOf}
	fs.Template.GoVer = gover
	fs.Template.SExtra, fs.Template.RExtra = gen.VarSExtra, gen.VarRExtra
	for _, l := range lists {
		id := fmt.Sprintf("P%05d", len(fs.Progs))
		fs.Progs = append(fs.Progs, pipeline.Prog{ID: id, Key: gen.Show(l), S: gen.VAR.PrintVarGen(id, l, false), R: gen.VAR.PrintVarGen(id, l, true)})
	}
	return fs
}

func VarFamilies(tier string) []*FamilySpec {
	hi := 3
	if tier == "thorough" {
		hi = 4
	}
	_ = hi
	lists := gen.VarPrograms(1, 3)
	if tier == "thorough" {
		lists = gen.VarPrograms(1, 3) // size 4 is added below through the lite alphabet
		lite := gen.VAR.Sub("VAR-lite", "YX", "EX", "Decl", "Upd", "MkGet", "CallGet", "MkClo", "CallClo", "Block", "ForShadow", "RangeDef", "SwShadow")
		seen := map[string]bool{}
		for _, l := range lists {
			seen[gen.Show(l)] = true
		}
		for _, l := range lite.Enumerate(4) {
			if lite.DirectYield(l) && !seen[gen.Show(l)] {
				lists = append(lists, l)
			}
		}
	}
	// corpus: shapes beyond the enumerated size that pin down loop-variable capture
	for _, k := range VarCorpus {
		l, err := gen.Parse(k)
		if err != nil {
			core.HarnessError("VAR corpus %q: %v", k, err)
		}
		lists = append(lists, l)
	}
	lists = closeUnderReductions(gen.VAR, lists)
	// second configuration: the closure-capturing subset in a go 1.22 module (per-iteration loop variables)
	var cap22 []gen.List
	for _, l := range lists {
		if capturesLoopVar(l, false) {
			cap22 = append(cap22, l)
		}
	}
	return []*FamilySpec{varFamily("VAR", lists, ""), varFamily("VAR-go1.22", cap22, "1.22")}
}

var VarCorpus = []string{
	"[RangeDef[CallGet MkGet YX]]",  // closure made in iteration 1, called in iteration 2
	"[ForShadow[CallGet MkGet YX]]", //
	"[RangeDef[YX CallGet MkGet]]",
	"[ForShadow[YX CallClo MkClo]]",
	"[RangeAsg[CallGet MkGet YX]]",
	"[Loop2[Decl CallGet MkGet YX]]",
	"[Block[Decl MkGet YX Upd CallGet]]",
	"[SwShadow[MkGet YX Upd][YX] CallGet]",
	"[TySwShadow[MkClo YX CallClo] EX]",
	"[IfInit[MkGet YX Upd][Upd YX] CallGet]",
	"[RangeIter[MkGet Decl2 CallGet YX]]", // re-declaration next to a new name must shadow, not assign
	"[RangeIter[MkPtr Decl2 CallGet] YX]",
	"[RangeIter[YX MkClo Decl2 CallClo EX]]",
	"[RangeIter[Decl YX] EX]",
	"[Block[MkGet Decl2 YX CallGet]]",
	"[SwPlain[Decl MkGet YX Decl2 CallGet][EX]]",  // re-declaration directly in a case clause body
	"[TySwPlain[Decl MkPtr YX Decl2 CallGet] EX]", //
	"[SwPlain[Decl MkClo IfElse[YX][EX] Decl2 CallClo][YX]]",
}

// capturesLoopVar: a closure is created inside a loop that declares its own x.
func capturesLoopVar(l gen.List, inLoop bool) bool {
	for _, s := range l {
		if inLoop && (s.K == "MkGet" || s.K == "MkClo") {
			return true
		}
		in := inLoop || s.K == "ForShadow" || s.K == "RangeDef" || s.K == "RangeIter"
		for _, ch := range s.Ch {
			if capturesLoopVar(ch, in) {
				return true
			}
		}
	}
	return false
}

// closeUnderReductions adds every sub-program (transitively) of the given programs that is itself a
// member of the family (jumps last, yields directly), so that root reduction can descend from a
// corpus program to its minimal failing core.
func closeUnderReductions(f *gen.Family, lists []gen.List) []gen.List {
	seen := map[string]bool{}
	var out []gen.List
	var add func(l gen.List)
	add = func(l gen.List) {
		k := gen.Show(l)
		if seen[k] {
			return
		}
		seen[k] = true
		out = append(out, l)
		for _, rk := range gen.Reductions(l) {
			if seen[rk] {
				continue
			}
			rl, err := gen.Parse(rk)
			if err != nil || !f.WellFormed(rl) {
				continue
			}
			add(rl)
		}
	}
	for _, l := range lists {
		add(l)
	}
	return out
}

// C03 — local state and lexical scoping survive suspension.
func C03(tier string) *core.Report {
	r := core.NewReport("C03", tier)
	// YEXPR: operands that read locals, fields, elements the generator updates right after the yield
	fams := append(VarFamilies(tier), consGenFamily(tier), yexprFamily(tier))
	for _, fr := range runFamilies(r, fams, tier) {
		for _, f := range fr.Divergences("lockstep", "panic", "lockstep-under-panic", "fatal", "nondet", "nondet-ref") {
			r.Fail(f)
		}
		// a scoping bug often shows up as output that does not build (name clash, undefined name)
		for _, f := range fr.CompileFailures() {
			r.Fail(f)
		}
	}
	r.Set("rule", ruleProg+"; VAR family: yield/effect of x, shadowing declaration, update, closure capturing and mutating x, closure reading x, under if-init, loop, for-with-shadowing-init, switch-init, type-switch binding, block, range := / = scopes; values of x flow into yields and effects, so a reference to the wrong variable or a lost update changes the log")
	commonAssumptions(r)
	r.Assume("programs that do not type-check as plain Go (e.g. a second := of x in one block) are dropped by the native build and counted as discarded")
	r.Assume("the harness modules declare go 1.21: three-clause and range loop variables are per-loop (pre-1.22 semantics), as in go-co's own go.mod (go 1.19)")
	return r
}
