package progcheck

import (
	"fmt"
	"strings"

	"verif/pipeline"
)

// ITYPE family (C06, C11): the API type Iter[T] in every syntactic type position (and the value
// expressions that go with it), under both import styles. The compiler replaces the type by
// seq.Iterator[T] wherever it occurs and lowers every range over a value of that type; what is
// ranged over is reached through the position under test.
//
//	position | import

type itypePos struct {
	named bool // only with a qualified import of the API
	name  string
	decls string // package-level declarations (use %[1]s for the program id, %[2]s for the qualifier)
	body  string // statements that end with a range over the iterator (the loop header is given as %[3]s ... {)
	expr  string // the ranged expression
}

var itypePositions = []itypePos{
	{name: "var", body: "var it %[2]sIter[int] = %[1]s_g(c)", expr: "it"},
	{name: "zero", body: "var it %[2]sIter[int]\n\tif it == nil {\n\t\tc.E(2)\n\t\tit = %[1]s_g(c)\n\t}", expr: "it"},
	{name: "field", decls: "type %[1]s_box struct{ it %[2]sIter[int] }", body: "b := %[1]s_box{%[1]s_g(c)}", expr: "b.it"},
	{name: "fieldkeyed", decls: "type %[1]s_box struct {\n\tn  int\n\tit %[2]sIter[int]\n}", body: "b := &%[1]s_box{it: %[1]s_g(c)}", expr: "b.it"},
	{name: "embedded", decls: "type %[1]s_eb struct {\n\t%[2]sIter[int]\n\tn int\n}", body: "b := %[1]s_eb{%[1]s_g(c), 1}\n\tif b.MoveNext() {\n\t\tc.X(2, b.Current())\n\t}\n\tvar it %[2]sIter[int] = b", expr: "it"},
	// the embedded field referred to by its name: the name follows the type and changes with it (open finding)
	{name: "embeddedname", decls: "type %[1]s_eb struct {\n\t%[2]sIter[int]\n\tn int\n}", body: "b := %[1]s_eb{Iter: %[1]s_g(c)}", expr: "b.Iter"},
	// a local type that merely has the name Iter (possible with a qualified API import only)
	{name: "foreignembedded", named: true, body: "type Iter struct{ n int }\n\ttype wrap struct {\n\t\tIter\n\t\tk int\n\t}\n\tw := wrap{Iter: Iter{4}, k: 1}\n\tc.X(2, w.Iter.n+w.n+w.k)", expr: "%[1]s_g(c)"},
	{name: "alias", decls: "type %[1]s_it = %[2]sIter[int]", body: "var it %[1]s_it = %[1]s_g(c)", expr: "it"},
	{name: "namedfunc", decls: "type %[1]s_mk func(c *rt.Ctx) %[2]sIter[int]", body: "var mk %[1]s_mk = %[1]s_g", expr: "mk(c)"},
	{name: "mapval", body: "m := map[string]%[2]sIter[int]{\"a\": %[1]s_g(c)}", expr: "m[\"a\"]"},
	{name: "sliceel", body: "s := []%[2]sIter[int]{%[1]s_g(c)}", expr: "s[0]"},
	{name: "makeslice", body: "s := make([]%[2]sIter[int], 1)\n\ts[0] = %[1]s_g(c)", expr: "s[len(s)-1]"},
	{name: "array", body: "a := [1]%[2]sIter[int]{%[1]s_g(c)}", expr: "a[0]"},
	{name: "chanel", body: "ch := make(chan %[2]sIter[int], 1)\n\tch <- %[1]s_g(c)", expr: "<-ch"},
	{name: "param", decls: "func %[1]s_use(c *rt.Ctx, it %[2]sIter[int]) {\n\tfor v := range it {\n\t\tc.X(91, v)\n\t}\n}", body: "%[1]s_use(c, %[1]s_g(c))", expr: "%[1]s_g(c)"},
	{name: "result", decls: "func %[1]s_mk(c *rt.Ctx) %[2]sIter[int] {\n\tc.E(3)\n\treturn %[1]s_g(c)\n}", expr: "%[1]s_mk(c)"},
	{name: "functype", body: "var f func() %[2]sIter[int] = func() %[2]sIter[int] { return %[1]s_g(c) }", expr: "f()"},
	{name: "litparam", body: "func(it %[2]sIter[int]) {\n\t\tfor v := range it {\n\t\t\tc.X(91, v)\n\t\t}\n\t}(%[1]s_g(c))", expr: "%[1]s_g(c)"},
	{name: "assert", body: "var a any = %[1]s_g(c)\n\tit := a.(%[2]sIter[int])", expr: "it"},
	{name: "assertok", body: "var a any = %[1]s_g(c)\n\tit, ok := a.(%[2]sIter[int])\n\tc.X(2, ok)", expr: "it"},
	{name: "typeswitch", body: "var a any = %[1]s_g(c)\n\tvar it %[2]sIter[int]\n\tswitch v := a.(type) {\n\tcase %[2]sIter[int]:\n\t\tc.E(2)\n\t\tit = v\n\tcase int:\n\t\tc.E(3)\n\t}", expr: "it"},
	{name: "conversion", body: "it := %[2]sIter[int](%[1]s_g(c))", expr: "it"},
	{name: "genericarg", decls: "type %[1]s_gb[T any] struct{ v T }", body: "b := %[1]s_gb[%[2]sIter[int]]{%[1]s_g(c)}", expr: "b.v"},
	{name: "genericfunc", decls: "func %[1]s_id[T any](x T) T { return x }", body: "it := %[1]s_id[%[2]sIter[int]](%[1]s_g(c))", expr: "it"},
	{name: "pointer", body: "it := %[1]s_g(c)\n\tp := &it", expr: "*p"},
	{name: "new", body: "p := new(%[2]sIter[int])\n\t*p = %[1]s_g(c)", expr: "*p"},
	{name: "ifacemethod", decls: "type %[1]s_src interface{ Gen() %[2]sIter[int] }\n\ntype %[1]s_impl struct{ c *rt.Ctx }\n\nfunc (s %[1]s_impl) Gen() %[2]sIter[int] { return %[1]s_g(s.c) }", body: "var s %[1]s_src = %[1]s_impl{c}", expr: "s.Gen()"},
	{name: "methodexpr", decls: "type %[1]s_impl struct{ c *rt.Ctx }\n\nfunc (s %[1]s_impl) Gen() %[2]sIter[int] { return %[1]s_g(s.c) }", body: "f := %[1]s_impl.Gen", expr: "f(%[1]s_impl{c})"},
	{name: "nested", body: "its := []%[2]sIter[int]{%[1]s_g(c), %[1]s_g(c)}\n\tfor _, inner := range its {\n\t\tfor v := range inner {\n\t\t\tc.X(91, v)\n\t\t}\n\t}", expr: "its[0]"},
	{name: "pkgvar", decls: "var %[1]s_keep %[2]sIter[int]", body: "%[1]s_keep = %[1]s_g(c)", expr: "%[1]s_keep"},
	{name: "structofslice", decls: "type %[1]s_hold struct{ all []%[2]sIter[int] }", body: "h := %[1]s_hold{}\n\th.all = append(h.all, %[1]s_g(c))", expr: "h.all[0]"},
	{name: "closurecapture", body: "it := %[1]s_g(c)\n\tnext := func() (int, bool) {\n\t\tif !it.MoveNext() {\n\t\t\treturn 0, false\n\t\t}\n\t\treturn it.Current(), true\n\t}\n\tv0, ok0 := next()\n\tc.X(2, fmt.Sprint(v0, ok0))", expr: "it"},
}

// NAMES family (C11 only): identifiers of the program that collide with names the generated code uses.
var namePositions = []itypePos{
	// a local variable named like the element type (open finding: the generated combinator calls name the type in that scope)
	{name: "elemshadow", decls: "type %[1]s_el struct{ n int }\n\nfunc %[1]s_gs(c *rt.Ctx) %[2]sIter[%[1]s_el] {\n\t%[1]s_el := %[1]s_el{c.V(10)}\n\t%[2]sYield(%[1]s_el)\n\t%[1]s_el.n++\n\t%[2]sYield(%[1]s_el)\n\treturn nil\n}", body: "for e := range %[1]s_gs(c) {\n\t\tc.X(91, e.n)\n\t}", expr: "%[1]s_g(c)"},
	// a parameter named like the element type is fine: the result type is resolved outside the body... but the combinator calls are not
	{name: "elemparam", decls: "type %[1]s_el struct{ n int }\n\nfunc %[1]s_gs(c *rt.Ctx, %[1]s_el int) %[2]sIter[int] {\n\t%[2]sYield(%[1]s_el)\n\treturn nil\n}", body: "for e := range %[1]s_gs(c, 3) {\n\t\tc.X(91, e)\n\t}", expr: "%[1]s_g(c)"},
	// locals named like predeclared identifiers the generated code relies on
	{name: "localnil", decls: "func %[1]s_gs(c *rt.Ctx) %[2]sIter[int] {\n\tfor i := 0; ; i++ {\n\t\tif i > 1 {\n\t\t\tbreak\n\t\t}\n\t\t%[2]sYield(c.W(3, i))\n\t}\n\treturn nil\n}", body: "for e := range %[1]s_gs(c) {\n\t\tc.X(91, e)\n\t}", expr: "%[1]s_g(c)"},
}

func namesFamily(tier string) *FamilySpec {
	fs := &FamilySpec{Name: "NAMES", ShardSize: 60, Reductions: dimReductions([]string{"localnil", "dot"})}
	fs.Template = pipeline.Spec{DeriveRef: true}
	for _, p := range namePositions {
		for _, imp := range []string{"dot", "named"} {
			id := fmt.Sprintf("P%05d", len(fs.Progs))
			fs.Progs = append(fs.Progs, pipeline.Prog{ID: id, Key: p.name + "|" + imp, S: itypeText(id, p, imp), Proc: true, OwnFile: true})
		}
	}
	return fs
}

func itypeText(id string, p itypePos, imp string) string {
	q := ""
	imports := []string{`. "github.com/goghcrow/go-co"`}
	if imp == "named" {
		q = "co."
		imports = []string{`"github.com/goghcrow/go-co"`}
	}
	imports = append(imports, `"fmt"`, `"verif/rt"`)
	var sb strings.Builder
	sb.WriteString("package src\n\nimport (\n")
	for _, im := range imports {
		sb.WriteString("\t" + im + "\n")
	}
	sb.WriteString(")\n\nvar _ = fmt.Sprint\n\n")
	fmt.Fprintf(&sb, "func %s_g(c *rt.Ctx) %sIter[int] {\n\tc.E(1)\n\t%sYield(c.V(10))\n\tc.E(4)\n\t%sYield(c.V(11))\n\treturn nil\n}\n\n", id, q, q, q)
	sub := strings.NewReplacer("%[1]s", id, "%[2]s", q).Replace
	if p.decls != "" {
		sb.WriteString(sub(p.decls) + "\n\n")
	}
	fmt.Fprintf(&sb, "func %s(c *rt.Ctx) {\n\tc.E(8)\n", id)
	if p.body != "" {
		sb.WriteString("\t" + sub(p.body) + "\n")
	}
	sb.WriteString("\tfor v := range " + sub(p.expr) + " {\n\t\tc.X(90, v)\n\t}\n\tc.E(9)\n}\n")
	return sb.String()
}

func itypeFamily(tier string) *FamilySpec {
	fs := &FamilySpec{Name: "ITYPE", ShardSize: 60, Reductions: dimReductions([]string{"var", "dot"})}
	fs.Template = pipeline.Spec{DeriveRef: true}
	for _, p := range itypePositions {
		for _, imp := range []string{"dot", "named"} {
			if p.named && imp == "dot" {
				continue
			}
			id := fmt.Sprintf("P%05d", len(fs.Progs))
			fs.Progs = append(fs.Progs, pipeline.Prog{ID: id, Key: p.name + "|" + imp, S: itypeText(id, p, imp), Proc: true, OwnFile: true})
		}
	}
	return fs
}
