package progcheck

import (
	"fmt"
	"os"
	"path/filepath"

	"verif/core"
	"verif/gen"
	"verif/pipeline"
)

func yfFamily(tier string) *FamilySpec {
	hi := 2
	if tier == "thorough" {
		hi = 3
	}
	var lists []gen.List
	for _, l := range gen.YF.Programs(1, hi) {
		if gen.HasDelegation(l) {
			lists = append(lists, l)
		}
	}
	var corpus []gen.List
	for _, k := range []string{
		"[While[YF2 If[Co] E] YFAdv]",
		"[ForPostYF[If[Co] YFCh]]",
		"[YFCh YFCh Y]",
		"[Sw2[YFRec Br][YFTree] E]",
		"[ForInf[YFCh If[Br]]]",
		"[YFTwice YFDone YF0 Y]",
		"[IfElse[YFInf][YFTree] E]",
	} {
		l, err := gen.Parse(k)
		if err != nil {
			core.HarnessError("YF corpus %q: %v", k, err)
		}
		corpus = append(corpus, l)
	}
	lists = append(lists, closeUnderReductions(gen.YF, corpus)...)
	fs := &FamilySpec{Name: "YF", Reductions: reductionsOf, MustTypeCheck: true}
	b, err := os.ReadFile(filepath.Join(core.Root(), "corpus", "yfhelpers.go.txt"))
	if err != nil {
		core.HarnessError("%v", err)
	}
	fs.Template = pipeline.Spec{DeriveRef: true, NoTmp: true, SFiles: map[string]string{"yfhelpers.go": string(b)}}
	seen := map[string]bool{}
	for _, l := range lists {
		key := gen.Show(l)
		if seen[key] || !gen.HasDelegation(l) {
			continue
		}
		seen[key] = true
		id := fmt.Sprintf("P%05d", len(fs.Progs))
		fs.Progs = append(fs.Progs, pipeline.Prog{ID: id, Key: key, S: gen.CFAll.PrintGen(id, l, false)})
	}
	return fs
}

// C05 — YieldFrom splices the delegate lazily and in order.
func C05(tier string) *core.Report {
	r := core.NewReport("C05", tier)
	fams := []*FamilySpec{yfFamily(tier), HandFamily("pool", "pool.go.txt")}
	for _, fr := range runFamilies(r, fams, tier) {
		for _, f := range fr.Divergences("lockstep", "panic", "lockstep-under-panic", "fatal", "nondet", "nondet-ref") {
			r.Fail(f)
		}
		for _, f := range fr.CompileFailures() {
			r.Fail(f)
		}
	}
	r.Set("rule", ruleProg+"; YF family: the core control-flow grammar plus delegation at every statement position (also for-init, for-post, switch-init) to an empty delegate, a 2-element delegate with effects, an infinite one, a choice-driven one, recursion depth 3 through YieldFrom, a binary tree walk, a delegate advanced by hand before delegation, an exhausted one, and the same iterator delegated twice; every delegation argument is wrapped in rt.S so its single evaluation is logged; in the reference YieldFrom is literally `for it.MoveNext() { Yield(it.Current()) }`")
	commonAssumptions(r)
	return r
}
