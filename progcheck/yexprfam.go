package progcheck

import (
	"fmt"
	"strings"

	"verif/pipeline"
)

// YEXPR family (C02, C07, C01): the yielded operand in every expression form x every position in
// which the compiler or the optimiser treats a yield specially. Each operand reads state that the
// generator changes right after the yield, and the consumer mutates what it was handed, so an
// operand evaluated early, once instead of every time, or shared between iterations shows up.
//
//	operand | position

type yOperand struct {
	name string
	expr string
}

var yOperands = []yOperand{
	{"call", "c.W(1, x)"},
	{"literal", "7"},
	{"ident", "x"},
	{"struct", "pt{x, s.f}"},
	{"structptr", "&pt{x, 1}"},
	{"slice", "[]int{x}"},
	{"map", "map[string]int{\"x\": x}"},
	{"array", "[2]int{x, 0}"},
	{"funclit", "func() int { return x }"},
	{"binary", "x + 1"},
	{"unary", "-x"},
	{"selector", "s.f"},
	{"index", "a[0]"},
	{"deref", "*p"},
	{"addr", "&x"},
	{"conversion", "int64(x)"},
	{"method", "s.get()"},
	{"assert", "i.(int)"},
	{"paren", "(x)"},
	{"nil", "nil"},
	{"funcvalcall", "hook(7)"},
	{"fieldfunccall", "s.hook(7)"},
	{"negliteral", "-7"},
	{"convliteral", "int64(7)"},
	{"stringcat", "\"v\" + fmt.Sprint(x)"},
	{"sliceexpr", "a[:1]"},
	{"namedfunccall", "nh(7)"},
	{"namedfieldcall", "s.nh(7)"},
	{"convcall", "int64(hook(7))"},
	{"namedconv", "myInt(7)"},
	{"parenliteral", "(7)"},
}

var yPositions = []string{"first", "plain", "loopfirst", "whilefirst", "afterif", "blockhead", "forpost", "case", "afterloop", "twice"}

const yexprExtra = `package src

import (
	"fmt"

	"verif/rt"
)

type pt struct{ a, b int }

type myInt int

// hookT: a named function type; calling a value of it looks like a conversion T(x)
type hookT func(int) int

type holder struct {
	f    int
	hook func(int) int
	nh   hookT
}

func mkHook(c *rt.Ctx) func(int) int { return func(n int) int { c.X(97, n); return n } }

func newHolder(c *rt.Ctx) *holder { return &holder{f: 1, hook: mkHook(c), nh: hookT(mkHook(c))} }

func (h *holder) get() int { return h.f * 10 }

// show renders a yielded value and then mutates what it can reach through it
func show(c *rt.Ctx, v any) {
	switch v := v.(type) {
	case func() int:
		c.X(90, v())
	case *int:
		c.X(91, *v)
		*v += 1000
	case []int:
		c.X(92, fmt.Sprint(v))
		if len(v) > 0 {
			v[0] += 100
		}
	case map[string]int:
		c.X(93, fmt.Sprint(v))
		v["x"] += 100
	case *pt:
		c.X(94, *v)
		v.a += 100
	default:
		c.X(95, fmt.Sprint(v))
	}
}
`

func yexprText(id string, op yOperand, pos string) string {
	var sb strings.Builder
	w := func(ind int, f string, a ...any) {
		sb.WriteString(strings.Repeat("\t", ind) + fmt.Sprintf(f, a...) + "\n")
	}
	w(0, "func %s_gen(c *rt.Ctx) Iter[any] {", id)
	bump := "x++; s.f++; a[0]++; i = x; p = &a[0]"
	decl := func() {
		w(1, "x := 1")
		w(1, "hook := func(n int) int { c.X(96, n*x); return n * x }")
		w(1, "nh := hookT(hook)")
		w(1, "s := &holder{f: 1, hook: hook, nh: nh}")
		w(1, "_, _ = hook, nh")
		w(1, "a := []int{1, 2}")
		w(1, "var i any = 1")
		w(1, "p := &x")
		w(1, "_, _, _, _, _ = x, s, a, i, p")
	}
	y := "Yield(" + op.expr + ")"
	switch pos {
	case "first": // the very first statement of the body after the declarations' thunk? no: nothing before it at all
		// state lives in parameters of an inner literal so that the yield is the first statement
		w(1, "return func(x int, s *holder, a []int, i any, p *int, hook func(int) int, nh hookT) Iter[any] {")
		w(2, "%s", y)
		w(2, "%s", bump)
		w(2, "%s", y)
		w(2, "return nil")
		w(1, "}(1, newHolder(c), []int{1, 2}, any(1), new(int), mkHook(c), hookT(mkHook(c)))")
		w(0, "}")
	case "plain":
		decl()
		w(1, "c.E(2)")
		w(1, "%s", y)
		w(1, "%s", bump)
		w(1, "%s", y)
		w(1, "return nil")
		w(0, "}")
	case "loopfirst":
		decl()
		w(1, "for n := 0; n < 3; n++ {")
		w(2, "%s", y)
		w(2, "%s", bump)
		w(1, "}")
		w(1, "return nil")
		w(0, "}")
	case "whilefirst":
		decl()
		w(1, "for x < 4 {")
		w(2, "%s", y)
		w(2, "%s", bump)
		w(1, "}")
		w(1, "return nil")
		w(0, "}")
	case "afterif":
		decl()
		w(1, "if c.B(3) {")
		w(2, "Yield(0)")
		w(2, "%s", bump)
		w(1, "}")
		w(1, "%s", y)
		w(1, "%s", bump)
		w(1, "%s", y)
		w(1, "return nil")
		w(0, "}")
	case "blockhead":
		decl()
		w(1, "{")
		w(2, "%s", y)
		w(2, "%s", bump)
		w(1, "}")
		w(1, "%s", y)
		w(1, "return nil")
		w(0, "}")
	case "forpost":
		decl()
		w(1, "for n := 0; n < 3; %s {", y)
		w(2, "n++")
		w(2, "%s", bump)
		w(1, "}")
		w(1, "return nil")
		w(0, "}")
	case "case":
		decl()
		w(1, "switch c.I(3) {")
		w(1, "case 0:")
		w(2, "%s", y)
		w(2, "%s", bump)
		w(2, "%s", y)
		w(1, "default:")
		w(2, "%s", bump)
		w(2, "%s", y)
		w(1, "}")
		w(1, "return nil")
		w(0, "}")
	case "afterloop":
		decl()
		w(1, "for n := 0; n < 2; n++ {")
		w(2, "Yield(n)")
		w(2, "%s", bump)
		w(1, "}")
		w(1, "%s", y)
		w(1, "return nil")
		w(0, "}")
	case "twice": // the same operand text in two consecutive yields of a loop body
		decl()
		w(1, "for n := 0; n < 2; n++ {")
		w(2, "%s", y)
		w(2, "%s", y)
		w(2, "%s", bump)
		w(1, "}")
		w(1, "return nil")
		w(0, "}")
	}
	w(0, "")
	w(0, "func %s(c *rt.Ctx) {", id)
	w(1, "c.E(8)")
	w(1, "g := %s_gen(c)", id)
	w(1, "c.E(9)")
	w(1, "for v := range g {")
	w(2, "show(c, v)")
	w(1, "}")
	w(0, "}")
	return sb.String()
}

func yexprFamily(tier string) *FamilySpec {
	fs := &FamilySpec{Name: "YEXPR", ShardSize: 120, Reductions: dimReductions([]string{"call", "plain"})}
	fs.Template = pipeline.Spec{DeriveRef: true, SImports: []string{`"fmt"`}, SHeaderDecl: "var _ = fmt.Sprint\n\n", SFiles: map[string]string{"extra.go": yexprExtra}, PerFile: 8}
	for _, op := range yOperands {
		for _, pos := range yPositions {
			id := fmt.Sprintf("P%05d", len(fs.Progs))
			fs.Progs = append(fs.Progs, pipeline.Prog{ID: id, Key: op.name + "|" + pos, S: yexprText(id, op, pos), Proc: true})
		}
	}
	return fs
}
