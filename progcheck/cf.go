package progcheck

import (
	"fmt"

	"verif/core"
	"verif/gen"
	"verif/pipeline"
)

func reductionsOf(key string) []string {
	l, err := gen.Parse(key)
	if err != nil {
		return nil
	}
	return gen.Reductions(l)
}

// genFamily turns enumerated statement lists into a FamilySpec of generator programs.
func genFamily(name string, f *gen.Family, lists []gen.List) *FamilySpec {
	fs := &FamilySpec{Name: name, Reductions: reductionsOf, MustTypeCheck: true}
	seen := map[string]bool{}
	for _, l := range lists {
		key := gen.Show(l)
		if seen[key] {
			continue
		}
		seen[key] = true
		id := fmt.Sprintf("P%05d", len(fs.Progs))
		fs.Progs = append(fs.Progs, pipeline.Prog{ID: id, Key: key, S: f.PrintGen(id, l, false), R: f.PrintGen(id, l, true)})
	}
	return fs
}

// CFCorpus: hand-picked programs beyond the enumerated sizes — the minimal program of every defect
// found so far (fixed or open) and shapes the quick bounds do not reach.
var CFCorpus = []string{
	"[Block[Y ForInf[If[Br]]]]",     // unlabelled break under a trailing condition-less for (fixed b36bb55)
	"[If[Y ForInf[IfElse[Br][E]]]]", // same, else branch
	"[Block[If[Y] Sw1[Y]]]",         // yielding switch after a combine, last in block (fixed f205465)
	"[While[E Sw2[Y][E]]]",          // loop body ending in a yielding switch (fixed 6142ae3)
	"[ForPostE[E Sw1[Y]]]",          // same with a trivial post
	"[While[If[Co] Y] Y]",           // continue in monadic loop
	"[ForPostY[If[Co] E]]",          // continue must not skip a yielding post (open)
	"[ForPostY[Y If[Co] E]]",        //
	"[ForNoCond[Y If[Br]]]",         // for init;;post with yield (fixed c6466f5)
	"[SwNoTag[Y][E] E]",             // tag-less yielding switch (fixed 6d20e5d)
	"[Sw2[If[Y]][E]]",               // case body ending in yielding if (fixed 8b31600)
	"[TySwBind[Y If[Y]][E]]",        //
	"[While[Sw2[Y Br][Co]] E]",      // break in switch inside monadic loop, continue from a case
	"[ForInf[Sw2[Y Br][Rt]]]",
	"[While[Sw2[Y Br][Co] E] E]",        // continue passes through a switch that also has a bound break; the rest of the body is skipped
	"[ForPostY[Sw3[Y Br][Co][E] E] E]",  //
	"[While[TySw[Y If[Br]][Co] Y] E]",   //           //
	"[While[For3[If[Br] Y] E]]",         // nested loops, inner break
	"[While[While[Y Co] If[Br] E]]",     //
	"[YFLit[While[Y If[Rt]]] E]",        // return inside a delegate literal
	"[While[YFLit[Y Rt] If[Co] E]]",     //
	"[IfElifElse[Y][E Rt][While[Y]] E]", //
	"[For3[For3[Y]]]",                   // shadowed loop variables
	"[ForInitY[ForInitY[Y]]]",           //
	"[SwInitY[Y Br] E]",                 //
	"[Block[Block[Y] E] E]",             //
	"[Y RtCall]",                        // return with a non-nil operand: evaluated, ignored
	"[Y RtIdx]",                         // ... whose evaluation may panic (index out of range)
	"[While[Y If[RtSel]] E]",            // ... nil pointer selector, inside a loop
	"[YFLit[Y RtIdx] E]",                // ... inside a delegate: the panic must come out of the outer advance
	"[Sw2[Y RtIdx][RtCall]]",            //
	"[ForPostY[If[RtSel] E]]",           //
}

// CFFamilies: the control-flow corpus of a tier, as one family so that root reduction sees every
// smaller program of the same run.
func CFFamilies(tier string) []*FamilySpec {
	var lists []gen.List
	if tier == "thorough" {
		lists = append(lists, gen.CFFull.Programs(1, 3)...)
		lists = append(lists, gen.CFCore.Programs(4, 4)...)
	} else {
		lists = append(lists, gen.CFFull.Programs(1, 2)...)
		lists = append(lists, gen.CFLite.Programs(3, 3)...)
	}
	var corpus []gen.List
	for _, k := range CFCorpus {
		l, err := gen.Parse(k)
		if err != nil {
			core.HarnessError("corpus entry %q: %v", k, err)
		}
		corpus = append(corpus, l)
	}
	lists = append(lists, closeUnderReductions(gen.CFAll, corpus)...)
	// added as they are (not closed under reduction: that would multiply the quick corpus by four)
	lists = append(lists, jumpContextCorpus(tier)...)
	lists = append(lists, nestedLoopCorpus()...)
	fams := []*FamilySpec{genFamily("CF", gen.CFAll, lists), HandFamily("pool", "pool.go.txt"), yexprFamily(tier), condFamily(tier), forClauseFamily(tier), swFormFamily(tier), panicFamily(tier)}
	return append(fams, ExampleFamilies()...)
}

type famCache struct {
	runs map[string]*FamilyRun
}

var cache = famCache{runs: map[string]*FamilyRun{}}

func runFamilies(r *core.Report, fams []*FamilySpec, tier string) []*FamilyRun {
	t := TierOf(tier)
	var out []*FamilyRun
	for _, fs := range fams {
		fr, notes := RunFamily(fs, t)
		for _, n := range notes {
			r.NotExhaustive(n)
		}
		fr.Account(r)
		out = append(out, fr)
	}
	r.Set("bounds", map[string]any{"answer_depth_D": t.Opts.D, "event_fuel_F": t.Opts.F, "consumer_calls_H": t.Opts.H, "per_program_path_cap": t.Opts.Cap, "panic_injection": "one injected panic per execution, at every event of every explored path"})
	if n := pipeline.ResultCacheHits.Load(); n > 0 {
		r.Set("shards_reused_from_result_cache", map[string]any{"shards": n, "note": "exploration output of an identical worker binary (same /repo tree, harness and programs) and identical bounds, produced by an earlier check of this tree; VERIF_NO_RESULT_CACHE=1 re-runs everything"})
	}
	if n := pipeline.TransientIncidents.Load(); n > 0 {
		r.Set("transient_worker_incidents", map[string]any{"count": n, "note": "a worker process stalled or died once and the program completed normally in two isolated re-runs (machine stall; the watchdog measures wall-clock time without progress); the isolated result was used"})
	}
	pipeline.Evict()
	return out
}

const ruleProg = "every program of the family's grammar up to the size bound is compiled by the real rewriter.Compile from a non-test binary and linked with the same text running on a goroutine coroutine (Go itself is the reference); a state is (program, answer prefix) of the stateless DFS over environment answers; every path is re-run with a panic injected at each of its events; the oracle compares complete marked logs"

func commonAssumptions(r *core.Report) {
	r.Assume("the code under test is sequential and deterministic: the marked log of the full run contains the observation of every truncated consumer as a prefix (no go statement, timer or package-level state in seq/ or generated code)")
	r.Assume("programs rejected by go-co or whose output does not build are counted and are C11's subject; they are not explored here")
	r.Assume("reference = Go compiling the same statement text on verif/refco (goroutine coroutine with strict hand-off)")
}

// C01 — values, number, order, termination.
func C01(tier string) *core.Report {
	r := core.NewReport("C01", tier)
	for _, fr := range runFamilies(r, CFFamilies(tier), tier) {
		for _, f := range fr.Divergences("values", "fatal", "nondet", "nondet-ref") {
			r.Fail(f)
		}
	}
	r.Set("rule", ruleProg+"; C01 compares the projection of the log onto the consumer-visible records (MoveNext result, Current value, exhaustion, panic)")
	commonAssumptions(r)
	return r
}

// C02 — demand-driven lockstep execution: full marked log.
func C02(tier string) *core.Report {
	r := core.NewReport("C02", tier)
	for _, fr := range runFamilies(r, CFFamilies(tier), tier) {
		for _, f := range fr.Divergences("lockstep", "fatal", "nondet", "nondet-ref") {
			r.Fail(f)
		}
	}
	r.Set("rule", ruleProg+"; C02 compares the full marked log: nothing between CALL> and CALL<, inside each MoveNext window exactly the reference's events in order, nothing after exhaustion")
	commonAssumptions(r)
	return r
}

// C18 — panics surface from the advance that ran the panicking statement.
func C18(tier string) *core.Report {
	r := core.NewReport("C18", tier)
	for _, fr := range runFamilies(r, CFFamilies(tier), tier) {
		for _, f := range fr.Divergences("panic", "lockstep-under-panic", "fatal", "nondet", "nondet-ref") {
			r.Fail(f)
		}
	}
	r.Set("rule", ruleProg+"; C18 looks at the injected-panic executions: consumer call the panic came out of, its value, and the values delivered before it")
	commonAssumptions(r)
	r.Assume("panic executions are explored only for programs whose panic-free paths agree (a program that already diverges is reported by C01/C02)")
	return r
}

// C11 — the compiler accepts the supported subset and its output builds.
func C11(tier string) *core.Report {
	r := core.NewReport("C11", tier)
	fams := append(CFFamilies(tier), importFamily(tier), etaFamily(tier), yfFamily(tier), negativeControlFamily(tier), bystanderFamily(tier), itypeFamily(tier), namesFamily(tier), rangeFuncFamily())
	if tier == "thorough" {
		fams = append(fams, VarFamilies(tier)...)
		fams = append(fams, consFamily(tier), rangeFamily("RANGE", tier, false))
	}
	for _, fr := range runFamilies(r, fams, tier) {
		for _, f := range fr.CompileFailures() {
			r.Fail(f)
		}
	}
	r.Set("rule", "families: control flow (CF), import/declaration/element-type configurations (IMPORT, one file per program), eta-shaped closures (ETA), delegation (YF); thorough adds VAR, CONS, RANGE; every type-correct program of the families is compiled by the real rewriter.Compile (batch, non-test binary, 10 min watchdog) and the generated package is built with go build without the co tag; a panic is isolated to its program through the verif hook; exploration counters are those of the shared run")
	r.Assume("programs of the families are within the documented supported subset (README control-flow table)")
	return r
}

// C07 — the optimisation pass never changes behaviour: unoptimised stage (kept by the verif hook)
// vs the final output of the real Compile, on every explored path and injected panic.
func C07(tier string) *core.Report {
	r := core.NewReport("C07", tier)
	fams := append(CFFamilies(tier), OptFamilies(tier)...)
	for _, fr := range runFamilies(r, fams, tier) {
		for _, f := range fr.Divergences("opt") {
			r.Fail(f)
		}
		// the final package must build whenever the unoptimised one does
		var fails []core.Failure
		tmpBad := 0
		for _, o := range fr.Outcomes {
			if o.TmpBad != "" {
				tmpBad++
			}
			if o.Status == "unbuildable" && o.TmpBad == "" {
				fails = append(fails, core.Failure{Key: fr.Spec.Name + ":" + o.Key, Kind: "optimised-unbuildable", Detail: o.Sig,
					What:   "the optimised output does not build although the unoptimised stage does",
					Replay: map[string]any{"source": fr.source(o, "src"), "unoptimised": fr.source(o, "tmp"), "generated": fr.source(o, "out")}})
			}
		}
		for _, f := range fr.roots(fails) {
			r.Fail(f)
		}
		for _, f := range fr.BlankImportsDropped() {
			r.Fail(f)
		}
		r.Add("unoptimised_stage_unbuildable", tmpBad)
		if len(fr.HookDiff) > 0 {
			r.Fail(core.Failure{Key: fr.Spec.Name + ":hook-binding", Kind: "hook-mismatch", Detail: "final output of the hook entry point differs from rewriter.Compile",
				What: "the verif hook does not reproduce the real pipeline, so its unoptimised stage cannot be trusted", Replay: fr.HookDiff})
		}
	}
	r.Set("rule", ruleProg+"; C07 is differential without any hand-written expectation: the marked log of the unoptimised intermediate package (stage 1 of the hook, whose final output is required to be byte-identical to the real Compile's) equals the marked log of the final package on all answer vectors and injected panics")
	commonAssumptions(r)
	r.Assume("the unoptimised stage still carries the go-co API import, which the compiler reports as unused; those import lines are removed before building it (nothing else is touched)")
	return r
}

// jumpContextCorpus: a break / continue / return placed under every non-loop compound (and under
// switch-in-if / if-in-switch), optionally after a yield, inside every loop form — the shapes in
// which the compiler has to decide whether a jump stays native, which statement it is bound to, and
// whether the loop's post statement still runs.
func jumpContextCorpus(tier string) []gen.List {
	y, e := &gen.Stmt{K: "Y"}, &gen.Stmt{K: "E"}
	loops := []string{"ForPostY", "ForInf", "ForPostE"}
	pres := []gen.List{{}, {y}}
	if tier == "thorough" {
		loops = []string{"ForPostY", "While", "ForInf", "For3", "ForPostE", "ForNoCond", "ForInitY"}
		pres = []gen.List{{}, {y}, {e}}
	}
	// wrappers: kind and which child receives the jump (others get [E])
	type wrap struct {
		k   string
		n   int
		pos int
	}
	wraps := []wrap{{"If", 1, 0}, {"IfElse", 2, 0}, {"IfElse", 2, 1}, {"IfElif", 2, 1}, {"IfInit", 1, 0}, {"Sw1", 1, 0}, {"Sw2", 2, 0}, {"Sw2", 2, 1},
		{"IfElifElse", 3, 1}, {"IfElifElse", 3, 2}, {"Sw3", 3, 1}, {"SwNoTag", 2, 0}, {"SwNoTag", 2, 1}, {"TySw", 2, 0}, {"TySwBind", 2, 1}, {"SwInitE", 1, 0}, {"Block", 1, 0}}
	mk := func(w wrap, inner gen.List) *gen.Stmt {
		st := &gen.Stmt{K: w.k}
		for i := 0; i < w.n; i++ {
			if i == w.pos {
				st.Ch = append(st.Ch, inner)
			} else {
				st.Ch = append(st.Ch, gen.List{e})
			}
		}
		return st
	}
	var out []gen.List
	add := func(loop string, body gen.List) {
		l := gen.List{{K: loop, Ch: [][]*gen.Stmt{body}}, e}
		if gen.CFAll.WellFormed(l) {
			out = append(out, l)
		}
	}
	for _, loop := range loops {
		for _, j := range []string{"Co", "Br", "Rt"} {
			for _, pre := range pres {
				inner := append(append(gen.List{}, pre...), &gen.Stmt{K: j})
				for _, w := range wraps {
					add(loop, gen.List{mk(w, inner), y})
				}
			}
		}
	}
	// a plain (non-yielding) condition-less loop as last statement of a block that becomes a thunk:
	// whether the thunk needs its own `return Normal` hinges on finding the loop's breaks
	for _, outer := range []string{"While", "If", "Sw1", "Block"} {
		for _, j := range []string{"Br", "Rt"} {
			for _, w := range wraps {
				if w.k == "Block" {
					continue
				}
				inf := &gen.Stmt{K: "ForInf", Ch: [][]*gen.Stmt{{mk(w, gen.List{{K: j}})}}}
				l := gen.List{{K: outer, Ch: [][]*gen.Stmt{{y, inf}}}, e}
				if gen.CFAll.WellFormed(l) {
					out = append(out, l)
				}
			}
		}
	}
	// two levels: if inside switch, switch inside if
	sw := []wrap{{"Sw2", 2, 0}, {"SwNoTag", 2, 1}, {"TySw", 2, 0}}
	ifs := []wrap{{"If", 1, 0}, {"IfElse", 2, 1}}
	for _, loop := range loops {
		for _, j := range []string{"Co", "Br"} {
			for _, a := range sw {
				for _, b := range ifs {
					add(loop, gen.List{mk(a, gen.List{mk(b, gen.List{{K: j}})}), y})
					add(loop, gen.List{mk(b, gen.List{mk(a, gen.List{y, {K: j}})}), y})
					// the jump sits inside the clause's first yielding statement: after its yield, or in
					// its other branch with more statements of the clause following
					add(loop, gen.List{mk(a, gen.List{mk(b, gen.List{y, {K: j}})}), y})
					add(loop, gen.List{mk(a, gen.List{mk(b, gen.List{y, {K: j}}), e}), y})
					add(loop, gen.List{mk(a, gen.List{{K: "IfElse", Ch: [][]*gen.Stmt{{y}, {{K: j}}}}, y}), y})
					add(loop, gen.List{mk(a, gen.List{{K: "Block", Ch: [][]*gen.Stmt{{y, mk(b, gen.List{{K: j}})}}}}), y})
				}
			}
		}
	}
	// native (yield-free) loops and switches whose body calls a plain closure before the jump: the
	// jump belongs to the native statement and must stay a Go jump
	clo := &gen.Stmt{K: "Clo"}
	for _, j := range []string{"Br", "Co"} {
		jmp := &gen.Stmt{K: j}
		ifj := &gen.Stmt{K: "If", Ch: [][]*gen.Stmt{{jmp}}}
		for _, nat := range []string{"While", "For3", "ForInf", "ForPostE"} {
			natLoop := &gen.Stmt{K: nat, Ch: [][]*gen.Stmt{{clo, ifj, e}}}
			for _, l := range []gen.List{
				{natLoop, y},
				{y, natLoop, y},
				{{K: "ForPostY", Ch: [][]*gen.Stmt{{natLoop, y}}}, e},
				{{K: "While", Ch: [][]*gen.Stmt{{y, natLoop, y}}}, e},
			} {
				if gen.CFAll.WellFormed(l) {
					out = append(out, l)
				}
			}
		}
		for _, a := range sw {
			natSw := mk(a, gen.List{clo, ifj, e})
			natSw2 := mk(a, gen.List{clo, jmp})
			for _, l := range []gen.List{
				{{K: "ForPostY", Ch: [][]*gen.Stmt{{natSw, y}}}, e},
				{{K: "While", Ch: [][]*gen.Stmt{{y, natSw2, y}}}, e},
				{{K: "For3", Ch: [][]*gen.Stmt{{natSw, y}}}, e},
			} {
				if gen.CFAll.WellFormed(l) {
					out = append(out, l)
				}
			}
		}
	}
	// the same without an enclosing loop: an escaping break would end the generator
	for _, a := range sw {
		for _, b := range ifs {
			br := &gen.Stmt{K: "Br"}
			for _, l := range []gen.List{
				{mk(a, gen.List{mk(b, gen.List{y, br})}), y},
				{mk(a, gen.List{{K: "IfElse", Ch: [][]*gen.Stmt{{y}, {br}}}, y}), y},
				{mk(a, gen.List{{K: "Block", Ch: [][]*gen.Stmt{{y, mk(b, gen.List{br})}}}}), y},
			} {
				if gen.CFAll.WellFormed(l) {
					out = append(out, l)
				}
			}
		}
	}
	return out
}

// nestedLoopCorpus: every pair of loop forms nested directly (the inner loop is the whole body of
// the outer one, or follows a yielding if), so that one inner loop VALUE is activated once per outer
// iteration: per-activation state (first-iteration flag, loop closure) must not survive.
func nestedLoopCorpus() []gen.List {
	y, e := &gen.Stmt{K: "Y"}, &gen.Stmt{K: "E"}
	outers := []string{"While", "For3", "ForPostE", "ForPostY", "ForInitE"}
	inners := []string{"While", "For3", "ForPostE", "ForPostY", "ForInitE", "ForInitY"}
	var out []gen.List
	for _, o := range outers {
		for _, i := range inners {
			inner := &gen.Stmt{K: i, Ch: [][]*gen.Stmt{{y}}}
			for _, body := range []gen.List{
				{inner},
				{&gen.Stmt{K: "If", Ch: [][]*gen.Stmt{{y}}}, inner},
				{inner, e},
			} {
				l := gen.List{{K: o, Ch: [][]*gen.Stmt{body}}, e}
				if gen.CFAll.WellFormed(l) {
					out = append(out, l)
				}
			}
		}
	}
	return out
}
