// Command drv runs go-co's compiler from an ordinary (non-test) binary.
//
//	drv real <src> <dst>          the unmodified rewriter.Compile
//	drv hook <src> <dst> <tmp>    the verif-tagged entry point: keeps the unoptimised stage, reports
//	                              per-file panics as JSON lines on stdout
//	drv gogen <dir>               the unmodified rewriter.GoGen (what cogen calls)
package main

import (
	"encoding/json"
	"flag"
	"fmt"
	"os"
	"strings"

	"github.com/goghcrow/go-co/rewriter"
	"github.com/goghcrow/go-loader"
)

func main() {
	if flag.Lookup("test.v") != nil || strings.HasSuffix(os.Args[0], ".test") {
		fmt.Fprintln(os.Stderr, "drv must not run as a test binary (go-co changes behaviour under go test)")
		os.Exit(2)
	}
	if len(os.Args) < 3 {
		fmt.Fprintln(os.Stderr, "usage: drv real|hook|gogen ...")
		os.Exit(2)
	}
	var opts []loader.Option
	if os.Getenv("DRV_LOAD_TEST") != "" {
		opts = append(opts, loader.WithLoadTest())
	}
	switch os.Args[1] {
	case "real":
		rewriter.Compile(os.Args[2], os.Args[3], opts...)
	case "hook":
		enc := json.NewEncoder(os.Stdout)
		rewriter.VerifCompile(os.Args[2], os.Args[3], os.Args[4], func(e rewriter.VerifEvent) { enc.Encode(e) }, opts...)
	case "gogen":
		rewriter.GoGen(os.Args[2])
	default:
		os.Exit(2)
	}
}
