// Command verif runs one property check: verif check <id> [--tier quick|thorough]
package main

import (
	"fmt"
	"os"

	"verif/cfgcheck"
	"verif/core"
	"verif/progcheck"
	"verif/rtcheck"
)

var checks = map[string]func(tier string) *core.Report{
	"C01": progcheck.C01,
	"C02": progcheck.C02,
	"C03": progcheck.C03,
	"C04": progcheck.C04,
	"C05": progcheck.C05,
	"C06": progcheck.C06,
	"C07": progcheck.C07,
	"C11": progcheck.C11,
	"C12": progcheck.C12,
	"C18": progcheck.C18,
	"C13": progcheck.C13,
	"C14": progcheck.C14,
	"C15": cfgcheck.C15,
	"C16": cfgcheck.C16,
	"C17": progcheck.C17,
	"C08": rtcheck.C08,
	"C09": rtcheck.C09,
	"C10": rtcheck.C10,
}

func main() {
	if len(os.Args) < 3 || os.Args[1] != "check" {
		fmt.Fprintln(os.Stderr, "usage: verif check <id> [--tier quick|thorough]")
		os.Exit(2)
	}
	id := os.Args[2]
	tier := os.Getenv("VERIF_TIER")
	for i := 3; i < len(os.Args); i++ {
		if os.Args[i] == "--tier" && i+1 < len(os.Args) {
			tier = os.Args[i+1]
			i++
		}
	}
	if tier != "thorough" {
		tier = "quick"
	}
	f, ok := checks[id]
	if !ok {
		fmt.Fprintln(os.Stderr, "unknown check", id)
		os.Exit(2)
	}
	os.Exit(f(tier).Finish())
}
