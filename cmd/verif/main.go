// Command verif runs one property check: verif check <id> [--tier quick|thorough]
package main

import (
	"encoding/json"
	"fmt"
	"os"

	"verif/pipeline"

	"verif/cfgcheck"
	"verif/core"
	"verif/progcheck"
	"verif/rtcheck"
)

var checks = map[string]func(tier string) *core.Report{
	"C01": progcheck.C01,
	"C02": progcheck.C02,
	"C03": progcheck.C03,
	"C04": progcheck.C04,
	"C05": progcheck.C05,
	"C06": progcheck.C06,
	"C07": progcheck.C07,
	"C11": progcheck.C11,
	"C12": progcheck.C12,
	"C18": progcheck.C18,
	"C13": progcheck.C13,
	"C14": progcheck.C14,
	"C15": cfgcheck.C15,
	"C16": cfgcheck.C16,
	"C17": progcheck.C17,
	"C08": rtcheck.C08,
	"C09": rtcheck.C09,
	"C10": rtcheck.C10,
}

// replay prints a recorded violation and, when the shard that produced it is still in the cache,
// re-runs the recorded answers on the real compiled program without the explorer.
func replay(path string) {
	b, err := os.ReadFile(path)
	if err != nil {
		fmt.Fprintln(os.Stderr, err)
		os.Exit(2)
	}
	var f struct {
		Property, Key, Kind, Detail string
		Replay                      map[string]any
	}
	if err := json.Unmarshal(b, &f); err != nil {
		fmt.Fprintln(os.Stderr, err)
		os.Exit(2)
	}
	fmt.Printf("property %s\ncase     %s\nkind     %s\ndetail   %s\n", f.Property, f.Key, f.Kind, f.Detail)
	for _, k := range []string{"source", "generated", "unoptimised"} {
		if s, ok := f.Replay[k].(string); ok && s != "" {
			fmt.Printf("---- %s\n%s\n", k, s)
		}
	}
	shard, _ := f.Replay["shard"].(string)
	id, _ := f.Replay["id"].(string)
	if shard != "" && id != "" {
		if _, err := os.Stat(shard + "/worker"); err == nil {
			var ans []int
			if xs, ok := f.Replay["answers"].([]any); ok {
				for _, x := range xs {
					if v, ok := x.(float64); ok {
						ans = append(ans, int(v))
					}
				}
			}
			panicAt := -1
			if v, ok := f.Replay["panic_at"].(float64); ok {
				panicAt = int(v)
			}
			fmt.Printf("---- re-executing %s with answers %v, panic at %d\n", id, ans, panicAt)
			o := progcheck.TierOf("quick").Opts
			fmt.Print(pipeline.Replay(&pipeline.Built{Dir: shard}, o, id, ans, panicAt))
			return
		}
		fmt.Println("(the shard that produced this replay is no longer cached; recorded logs follow)")
	}
	for _, k := range []string{"reference", "impl", "model", "real"} {
		if v, ok := f.Replay[k]; ok {
			fmt.Printf("---- %s\n%v\n", k, v)
		}
	}
}

func main() {
	if len(os.Args) == 3 && os.Args[1] == "replay" {
		replay(os.Args[2])
		return
	}
	if len(os.Args) < 3 || os.Args[1] != "check" {
		fmt.Fprintln(os.Stderr, "usage: verif check <id> [--tier quick|thorough]")
		os.Exit(2)
	}
	id := os.Args[2]
	tier := os.Getenv("VERIF_TIER")
	for i := 3; i < len(os.Args); i++ {
		if os.Args[i] == "--tier" && i+1 < len(os.Args) {
			tier = os.Args[i+1]
			i++
		}
	}
	if tier != "thorough" {
		tier = "quick"
	}
	f, ok := checks[id]
	if !ok {
		fmt.Fprintln(os.Stderr, "unknown check", id)
		os.Exit(2)
	}
	os.Exit(f(tier).Finish())
}
