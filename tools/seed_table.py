#!/usr/bin/env python3
"""Prints the markdown table of DESIGN.md section 7 from seeded/*/meta.json and mutations/RESULTS.tsv."""
import json, glob, os, collections
root = os.path.dirname(os.path.dirname(os.path.abspath(__file__)))
print("| seeded defect (written by a sub-agent from the property text only) | needs | confirmed (demo clean / tests with change / demo with change) | checks |")
print("|---|---|---|---|")
for m in sorted(glob.glob(root + "/seeded/*/meta.json")):
    d = json.load(open(m))
    c = d["confirmed"]
    checks = ", ".join("%s: %s" % (x["check"], x["verdict"].lower()) for x in d["checks"])
    print("| %s: %s | %s | exit %s / %s / exit %s | %s |" % (d["id"], d.get("summary", ""), d.get("needs", ""), c["demo_exit_on_unchanged_tree"], c["stable_tests_with_change"], c["demo_exit_with_change"], checks))
print()
print("| own mutation (mutations/*.diff) | stable tests | check | verdict | first root |")
print("|---|---|---|---|---|")
last = collections.OrderedDict()
if os.path.exists(root + "/mutations/RESULTS.tsv"):
    for l in open(root + "/mutations/RESULTS.tsv"):
        f = l.rstrip("\n").split("\t")
        if len(f) >= 5 and not f[0].startswith("patch.diff"):
            last[(f[0], f[1])] = f
for (p, chk), f in last.items():
    print("| %s | %s | %s | %s | %s |" % (p.replace(".diff", ""), f[2].split("=")[1], chk, f[3].lower(), (f[5] if len(f) > 5 else "").strip().replace("|", "\\|")[:110]))
