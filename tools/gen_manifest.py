#!/usr/bin/env python3
"""Regenerates /verif/MANIFEST.json from the table below (run after adding a check)."""
import json, os
ROOT = os.path.dirname(os.path.dirname(os.path.abspath(__file__)))
ALL = ["C%02d" % i for i in range(1, 19)]

# id -> (technique, level text, level note, design ref)
CHECKS = {
 "C08": ("exhaustive enumeration of combinator terms x consumer strings x condition answers x injected panics on the real seq runtime vs a direct structured-loop interpreter",
         "All combinator terms up to size 4 (quick: 2.5k terms) / size 5 plus MoveNext-only size 6 (thorough) are built with the real seq API from logging closures; for each term a stateless DFS explores every answer vector of the loop conditions to depth 4, every consumer string over {MoveNext, Send} of length 4 (plus two long ones), a panic injected at every logged event, and a second Start of the same Seq value. The marked log (which thunk/cond/post ran inside which consumer call, yielded values, result, panic site) must equal the log written by a direct interpreter for structured loops; Combine associativity/units and Delay transparency are additionally checked implementation-against-implementation.",
         "Trusted: the interpreter exec8 and consumer model in rtcheck/c08.go. Terms that spin without an event are pruned (no finite observation). Terms above the size bound are not covered; the property mentions random larger terms - sampling is outside this technique and is not done.",
         "DESIGN.md section 2, C08"),
 "C10": ("exhaustive enumeration of inputs (byte strings over an 8-byte alphabet, ints, slices x mutation scripts, maps x deletion scripts, channel contents) vs the native range statement",
         "Every byte string up to length 4 (quick) / 6 (thorough) over {a, C3, A9, E2, 82, AC, F0, FF} (ASCII, valid 2/3-byte runes, truncated and invalid sequences), every n in -3..8, every []int shape up to length 4/5 (nil, empty, spare capacity) under every mutation script, every map over keys {a,b,c,nil} x values {1,nil} in three map types with deletion scripts, and every channel content up to length 3 are fed to the seq.New*Iter iterators and to a native range loop in the same process; the pair sequences must be equal (multisets plus the spec deletion rules for maps).",
         "Trusted: the Go compiler own range statement as reference. Inputs beyond the bounds (longer strings, other element types) are not covered; random longer inputs mentioned by the property are sampling and are not done.",
         "DESIGN.md section 2, C10"),
 "C09": ("exhaustive enumeration of operation histories on the real iterator vs an abstract state machine",
         "Every history over {MoveNext, Current, Result, Send(1), Send(2)} up to length 6 (quick) / 8 (thorough) is replayed on a fresh real seq iterator for each of 42 generators (BindRecv/Bind chains, For-loop and infinite generators, with/without echo and return value) and compared, record by record including the generator-side effect log, with a 30-line abstract machine written from the property statement. Bounded-exhaustive: no sampling.",
         "Trusted: the abstract machine in rtcheck/c09.go; histories longer than the bound and generators outside the family are not covered. Result is compared only after exhaustion.",
         "DESIGN.md section 2, C09"),
}
PENDING = {}

checks = []
for pid in ALL:
    if pid not in CHECKS:
        continue
    tech, text, note, ref = CHECKS[pid]
    checks.append({
        "property_id": pid,
        "quick_cmd": "./run_check.sh %s quick" % pid,
        "thorough_cmd": "./run_check.sh %s thorough" % pid,
        "evidence_file": "/verif/evidence/%s.json" % pid,
        "replay_cmd_template": "./run_check.sh replay {path}",
        "engine": "verif",
        "level_claimed": {"category": "model_checking", "text": text, "design_ref": ref},
        "level_note": note,
        "technique": tech,
    })
na = [{"property_id": p, "reason": PENDING.get(p, "check not built yet (work in progress; see DESIGN.md section 2 for the plan)")} for p in ALL if p not in CHECKS]
m = {
 "version": 1,
 "setup_cmd": "./setup.sh",
 "hooks": {
  "guard": "verif",
  "enable": "go build -tags verif (the /verif module replaces github.com/goghcrow/go-co with /repo, so every check compiles /repo's working tree)",
  "baseline_off_cmd": "cd /repo && GOFLAGS=-mod=mod GOPROXY=off GOSUMDB=off go test -vet=off -count=1 ./seq ./rewriter ./example ./example/lexer ./example/linq ./example/sched1 ./example/sched2 ./example/tree",
  "source_commits": [],
  "add_only": True,
 },
 "engines": [
  {"name": "verif", "path": "/verif/cmd/verif", "serves_properties": sorted(CHECKS), "kind_free_text": "hand-written bounded-exhaustive explorers in Go: stateless DFS with replay over environment answers and injected panics on generated programs compiled by the real go-co pipeline, against Go itself running the same source on a goroutine coroutine; exhaustive history/term/interleaving/input enumeration against small reference models for the seq runtime"},
 ],
 "checks": checks,
 "not_applicable": na,
 "notes": "All checks rebuild bin/verif and the driver from /repo's working tree (go build cache makes the unchanged case fast). Exit 0 = held on everything explored; exit 1 + VIOLATION line = violation; exit 2 = harness error.",
}
json.dump(m, open(os.path.join(ROOT, "MANIFEST.json"), "w"), indent=1)
print("wrote MANIFEST.json with", len(checks), "checks;", len(na), "not claimed")
