#!/usr/bin/env python3
"""Regenerates /verif/MANIFEST.json from the table below (run after adding a check)."""
import json, os
ROOT = os.path.dirname(os.path.dirname(os.path.abspath(__file__)))
ALL = ["C%02d" % i for i in range(1, 19)]

# id -> (technique, level text, level note, design ref)
CHECKS = {
 "C09": ("exhaustive enumeration of operation histories on the real iterator vs an abstract state machine",
         "Every history over {MoveNext, Current, Result, Send(1), Send(2)} up to length 6 (quick) / 8 (thorough) is replayed on a fresh real seq iterator for each of 42 generators (BindRecv/Bind chains, For-loop and infinite generators, with/without echo and return value) and compared, record by record including the generator-side effect log, with a 30-line abstract machine written from the property statement. Bounded-exhaustive: no sampling.",
         "Trusted: the abstract machine in rtcheck/c09.go; histories longer than the bound and generators outside the family are not covered. Result is compared only after exhaustion.",
         "DESIGN.md section 2, C09"),
}
PENDING = {}

checks = []
for pid in ALL:
    if pid not in CHECKS:
        continue
    tech, text, note, ref = CHECKS[pid]
    checks.append({
        "property_id": pid,
        "quick_cmd": "./run_check.sh %s quick" % pid,
        "thorough_cmd": "./run_check.sh %s thorough" % pid,
        "evidence_file": "/verif/evidence/%s.json" % pid,
        "replay_cmd_template": "./run_check.sh replay {path}",
        "engine": "verif",
        "level_claimed": {"category": "model_checking", "text": text, "design_ref": ref},
        "level_note": note,
        "technique": tech,
    })
na = [{"property_id": p, "reason": PENDING.get(p, "check not built yet (work in progress; see DESIGN.md section 2 for the plan)")} for p in ALL if p not in CHECKS]
m = {
 "version": 1,
 "setup_cmd": "./setup.sh",
 "hooks": {
  "guard": "verif",
  "enable": "go build -tags verif (the /verif module replaces github.com/goghcrow/go-co with /repo, so every check compiles /repo's working tree)",
  "baseline_off_cmd": "cd /repo && GOFLAGS=-mod=mod GOPROXY=off GOSUMDB=off go test -vet=off -count=1 ./seq ./rewriter ./example ./example/lexer ./example/linq ./example/sched1 ./example/sched2 ./example/tree",
  "source_commits": [],
  "add_only": True,
 },
 "engines": [
  {"name": "verif", "path": "/verif/cmd/verif", "serves_properties": sorted(CHECKS), "kind_free_text": "hand-written bounded-exhaustive explorers in Go: stateless DFS with replay over environment answers and injected panics on generated programs compiled by the real go-co pipeline, against Go itself running the same source on a goroutine coroutine; exhaustive history/term/interleaving/input enumeration against small reference models for the seq runtime"},
 ],
 "checks": checks,
 "not_applicable": na,
 "notes": "All checks rebuild bin/verif and the driver from /repo's working tree (go build cache makes the unchanged case fast). Exit 0 = held on everything explored; exit 1 + VIOLATION line = violation; exit 2 = harness error.",
}
json.dump(m, open(os.path.join(ROOT, "MANIFEST.json"), "w"), indent=1)
print("wrote MANIFEST.json with", len(checks), "checks;", len(na), "not claimed")
