#!/usr/bin/env python3
"""Regenerates /verif/MANIFEST.json from the table below (run after adding a check)."""
import json, os
ROOT = os.path.dirname(os.path.dirname(os.path.abspath(__file__)))
ALL = ["C%02d" % i for i in range(1, 19)]

# id -> (technique, level text, level note, design ref)
PROG_NOTE = "Trusted: the Go compiler as reference semantics (same statement text on verif/refco), the mini-language printers in /verif/gen, the log comparison in /verif/harness. Programs outside the enumerated grammar/size, answer vectors deeper than D and more than one injected panic per execution are not covered. The final generated files that are executed come from the unmodified rewriter.Compile run from a non-test binary."
CHECKS = {
 "C01": ("bounded-exhaustive program enumeration + stateless DFS over environment answers, real go-co output vs Go-on-coroutine reference (projection: delivered values, count, order, exhaustion)",
         "Every generator body of the control-flow grammar up to the size bound (quick: full alphabet of 29 statement forms to size 2, five-compound alphabet to size 3, regression corpus; thorough: full alphabet to size 3 = 37k programs, core alphabet size 4 = 122k programs) is compiled by the real compiler and explored under every answer vector of its branch/loop conditions up to depth D (6/10) with fuel F (48/96); the sequence of (MoveNext result, Current) records and the point of exhaustion must equal those of the same statement text executed by Go itself on a goroutine-backed coroutine. Infinite generators are compared on every prefix up to the fuel.",
         PROG_NOTE, "DESIGN.md 1.1-1.6, section 2 C01"),
 "C02": ("bounded-exhaustive program enumeration + stateless DFS over environment answers, comparison of complete marked event logs (which effect ran inside which consumer call)",
         "Same exploration as C01, but the oracle is equality of the whole marked log: no event between the call of the generator function and the first MoveNext, inside each MoveNext window exactly the reference's condition evaluations, effects and the evaluation of the yielded expression in source order, nothing after the last advance, and two extra advances after exhaustion run nothing. Because the code is sequential, the full log decides every consumer truncation point at once.",
         PROG_NOTE, "DESIGN.md 1.2, section 2 C02"),
 "C03": ("bounded-exhaustive program enumeration (VAR grammar: declare/shadow/update/capture/call/read of a local under every scope-introducing construct) + DFS over answers, complete marked logs vs Go-on-coroutine",
         "Every program of the VAR grammar up to size 3 (quick) / 3 plus a 12-kind sub-alphabet at size 4 (thorough), plus a corpus closed under reduction: yields and effects of x, shadowing declarations, updates, closures that mutate x, closures that read x, under if-init, loops, for with shadowing init, switch-init, type-switch binding, blocks and range := / = scopes; values of x flow into yields and effects, so a reference to the wrong variable, a lost update or a closure bound to the wrong variable changes the log. A second configuration compiles the loop-variable-capturing subset in a go 1.22 module.",
         PROG_NOTE, "DESIGN.md section 2 C03"),
 "C04": ("bounded-exhaustive product enumeration kind x variable form x token x placement x operand x mutation script x collection value x break/continue, native range statement as reference",
         "Product family over range kinds slice/array/string/map/map[any]any/chan/int (int in a go 1.22 module), variable forms, := and =, placements (yielding body, non-yielding loop inside a generator, loop inside a closure nested in a generator, nested in another yielding range), operand as variable or as call result whose single evaluation is logged, mutation scripts applied at the first iteration (append, write ahead/behind, reslice, set nil, delete entries not yet produced), collection values (nil, empty, invalid and truncated UTF-8, nil interface keys/values, zero channel values, n <= 0) and oracle-guarded break/continue. Quick: every configuration within distance 2 of each kind's baseline; thorough: the full product. The reference is the same text with Go's own range statement.",
         PROG_NOTE + " Maps with several entries log only order-independent observations.", "DESIGN.md section 2 C04"),
 "C05": ("bounded-exhaustive program enumeration (core control-flow grammar + delegation atoms at every statement position) + DFS over answers + injected panics, complete marked logs",
         "Every program of the core grammar extended with delegation (to an empty, a 2-element, an infinite, a choice-driven, a recursive depth-3, a tree-walking, a hand-advanced, an exhausted and a twice-delegated iterator; also in for-init, for-post and switch-init position) up to size 2 (quick) / 3 (thorough) plus a corpus; every delegation argument is wrapped so that its single evaluation is logged; in the reference YieldFrom is literally the pull loop, so delegate events must fall into the consumer window that pulled them and the statement after YieldFrom must run in the window that found the delegate exhausted.",
         PROG_NOTE, "DESIGN.md section 2 C05"),
 "C06": ("bounded-exhaustive product enumeration holder x loop form x control x body x wrapper of consumer functions, explicit pull loop as reference",
         "Product family over where the iterator lives (local, call result, struct field, pointer field of slice, map value, slice element, closure result, generic function generator, method generator, interface + type assertion, closure parameter), how it is consumed (range :=, range =, pull, pull-then-range, range-break-then-pull, nested range, generator of iterators, two iterators zipped), control (break/continue/return under a choice point), body (log / re-declare the loop variable) and wrapper (plain function, inside a generator that re-yields, inside a closure). Generators log every resume, so pulling one element too many is visible. Quick: distance <= 2 from the baseline; thorough: full product. The output must also build, which decides the consistent replacement of the iterator type.",
         PROG_NOTE, "DESIGN.md section 2 C06"),
 "C07": ("differential bounded-exhaustive exploration: unoptimised intermediate package vs final package of the same compile, on every enumerated program, answer vector and injected panic",
         "For every program of the control-flow corpus (and the optimiser-directed families) the verif hook keeps the unoptimised stage-1 package; it is linked next to the final output of the real rewriter.Compile (the hook's own final output must be byte-identical to it) and both are explored with the same answer vectors and injected panics; their marked logs must be identical, and the final package must build whenever the unoptimised one does. No hand-written expectation is involved.",
         PROG_NOTE + " The unused API import of the unoptimised stage is removed before building it.", "DESIGN.md section 2 C07"),
 "C11": ("bounded-exhaustive program enumeration through the real compiler entry point; per-program verdict accepted / panics / output does not build",
         "Every type-correct program of the control-flow grammar at the tier's sizes is compiled in batches by the unmodified rewriter.Compile from a non-test binary under a 10 minute watchdog; a panic is isolated to the offending program with the verif hook (per-file recover) and the generated package is built with go build -gcflags=-e without the co tag; every rejected or unbuildable program is reduced to a root and reported.",
         "Trusted: the generator emits only constructs of the README's supported table; go build as type checker. Import/file configurations and the other families are added as those checks land.", "DESIGN.md 1.3, section 2 C11"),
 "C18": ("bounded-exhaustive fault enumeration: one injected panic at every logged event of every explored path of every enumerated program, real output vs reference coroutine",
         "For every explored path of every enumerated program the execution is repeated once per logged event with a panic raised by that event (inside loop conditions, post statements, case bodies, delegates, yielded expressions); the consumer call the panic comes out of, the panic value and the values delivered before it must equal the reference's.",
         PROG_NOTE + " One panic per execution; Send-driven consumers are covered at runtime level by C08.", "DESIGN.md 1.2, section 2 C18"),
 "C08": ("exhaustive enumeration of combinator terms x consumer strings x condition answers x injected panics on the real seq runtime vs a direct structured-loop interpreter",
         "All combinator terms up to size 4 (quick: 2.5k terms) / size 5 plus MoveNext-only size 6 (thorough) are built with the real seq API from logging closures; for each term a stateless DFS explores every answer vector of the loop conditions to depth 4, every consumer string over {MoveNext, Send} of length 4 (plus two long ones), a panic injected at every logged event, and a second Start of the same Seq value. The marked log (which thunk/cond/post ran inside which consumer call, yielded values, result, panic site) must equal the log written by a direct interpreter for structured loops; Combine associativity/units and Delay transparency are additionally checked implementation-against-implementation.",
         "Trusted: the interpreter exec8 and consumer model in rtcheck/c08.go. Terms that spin without an event are pruned (no finite observation). Terms above the size bound are not covered; the property mentions random larger terms - sampling is outside this technique and is not done.",
         "DESIGN.md section 2, C08"),
 "C10": ("exhaustive enumeration of inputs (byte strings over an 8-byte alphabet, ints, slices x mutation scripts, maps x deletion scripts, channel contents) vs the native range statement",
         "Every byte string up to length 4 (quick) / 6 (thorough) over {a, C3, A9, E2, 82, AC, F0, FF} (ASCII, valid 2/3-byte runes, truncated and invalid sequences), every n in -3..8, every []int shape up to length 4/5 (nil, empty, spare capacity) under every mutation script, every map over keys {a,b,c,nil} x values {1,nil} in three map types with deletion scripts, and every channel content up to length 3 are fed to the seq.New*Iter iterators and to a native range loop in the same process; the pair sequences must be equal (multisets plus the spec deletion rules for maps).",
         "Trusted: the Go compiler own range statement as reference. Inputs beyond the bounds (longer strings, other element types) are not covered; random longer inputs mentioned by the property are sampling and are not done.",
         "DESIGN.md section 2, C10"),
 "C12": ("bounded-exhaustive fault-style enumeration: every base program x every statement position x one injected unsupported construct, verdict rejected / unbuildable / builds-and-agrees with the reference",
         "Every base program of the full control-flow grammar up to size 1 (quick) / 2 (thorough), plus the empty base, gets one unsupported construct inserted at every statement position of every block: goto over an effect / over a yield, labelled break / continue out of a nested loop, select, defer (plain, in an if, in a loop), fallthrough out of / into a yielding case, range over pointer-to-array, yield in an if initialiser, yield inside a plain closure - and the same constructs inside nested plain closures as negative controls that must be accepted. Hand-written additions: range over a type parameter, over a pointer variable, wrong result signatures (must be rejected). A program that is rejected with a diagnostic or whose output does not build satisfies the property; one that builds is explored like any other program and its marked log must equal the reference's (in which Go compiles the construct natively inside the coroutine body).",
         PROG_NOTE + " `go Yield(v)` is excluded from exploration (no defined reference behaviour); its rejection is covered by the same diagnostic.", "DESIGN.md section 2 C12"),
 "C13": ("bounded-exhaustive product enumeration of eta-shaped closures (callee x parameter shape x placement), bystander declarations and import configurations; Go itself as oracle (identical text as reference)",
         "Product family over the callee of a closure func(params) R { return callee(args) } (package function, local function variable reassigned later, nil variable assigned later, method value with receiver reassigned / mutated later, struct field function, call result, builtin, conversion, generic function instantiated / inferred, variadic spread, result widening, recursive variable), parameter shapes (same, unnamed, blank, swapped, subset, extra statement) and placements (plain function, package-level initialiser, generator body around yields, yielded expression, loop condition); hand-written bystanders (consts with iota, initialisation order with effects, init functions, methods, generic function, //go:noinline, closures with capture by reference and defer, labels/goto/select/fallthrough in plain functions, side-effect import); one-file-per-program import configurations (dot / named / renamed API import, seq already imported) x declaration kinds x element types x result styles. Plain code is ordinary Go, so the derived reference is the identical text compiled by Go; marked logs must be equal on every path and injected panic, the output must build, and no side-effect import may disappear.",
         PROG_NOTE, "DESIGN.md section 2 C13"),
 "C14": ("exhaustive enumeration of interleavings: every ordered k-tuple of live iterators x every schedule of m advances each, each iterator compared with its solo run",
         "A pool of 9 compiled generators (closure state, recursive tree walk and recursion through YieldFrom, range-backed, infinite with switch/continue, consumer-inside-generator, generator literal called twice, type switch with yielding post, hand-advanced delegate) is instantiated as every ordered pair (m=4/5) and triple (m=2/3) with repetition; all interleavings of the advances are executed on the real compiled code, each iterator with its own environment, and its (MoveNext, Current, private effect log) sequence must equal its solo run. At runtime level one Seq VALUE is started three times and all interleavings are run. Supplements, reported separately and not the basis of the claim: the same bodies free-running on goroutines under -race (sampling), and a static audit that seq/ and the generated code declare no package-level variable and no go statement.",
         "Trusted: solo run as oracle (its agreement with the source is C01/C02's subject and the pool is also explored there). The runtime has no synchronisation operations, so there are no scheduling points inside an advance; true parallelism is covered only by the sampled -race pass.", "DESIGN.md section 2 C14"),
 "C17": ("exhaustive enumeration of loop forms x non-yielding body terms x iteration counts with a stack-depth monitor on every sampled state",
         "Runtime level: every body term of size <= 3 that completes with Normal/Continue (incl. Combine, Delay, Breakable, Continuable) under Loop, While and For runs n = 2^12 (quick) / 2^16 (thorough) iterations between two yields. Compiled level: 9 loop shapes (three-clause with continue, condition-only with filter, infinite with break, range over slice/string, linq-style Where(Range), switch with continue, yielding post, nested non-yielding inner loop) with n up to 2^12 / 2^20, never yielding inside or every 16th iteration, each run in its own worker process (a stack overflow is itself the violation); delegation depth d = 1..64/256. The call-stack depth (runtime.Callers) is sampled inside the loop at iterations 1..64 and around every power of two; the invariant is that the maxima over (0,N/4], (N/4,N/2], (N/2,N] are not strictly increasing, and that depth grows at most linearly in d.",
         "Bounded in n; the step from n to all n rests on the loop state at iteration i+1 having the same closure shape as at i (stated as an assumption). Depth is sampled, not observed at every iteration, so growth confined to unsampled iterations only would be missed; a monotone leak cannot hide there.", "DESIGN.md section 2 C17"),
 "C09": ("exhaustive enumeration of operation histories on the real iterator vs an abstract state machine",
         "Every history over {MoveNext, Current, Result, Send(1), Send(2)} up to length 6 (quick) / 8 (thorough) is replayed on a fresh real seq iterator for each of 42 generators (BindRecv/Bind chains, For-loop and infinite generators, with/without echo and return value) and compared, record by record including the generator-side effect log, with a 30-line abstract machine written from the property statement. Bounded-exhaustive: no sampling.",
         "Trusted: the abstract machine in rtcheck/c09.go; histories longer than the bound and generators outside the family are not covered. Result is compared only after exhaustion.",
         "DESIGN.md section 2, C09"),
}
PENDING = {}

checks = []
for pid in ALL:
    if pid not in CHECKS:
        continue
    tech, text, note, ref = CHECKS[pid]
    checks.append({
        "property_id": pid,
        "quick_cmd": "./run_check.sh %s quick" % pid,
        "thorough_cmd": "./run_check.sh %s thorough" % pid,
        "evidence_file": "/verif/evidence/%s.json" % pid,
        "replay_cmd_template": "./run_check.sh replay {path}",
        "engine": "verif",
        "level_claimed": {"category": "model_checking", "text": text, "design_ref": ref},
        "level_note": note,
        "technique": tech,
    })
na = [{"property_id": p, "reason": PENDING.get(p, "check not built yet (work in progress; see DESIGN.md section 2 for the plan)")} for p in ALL if p not in CHECKS]
m = {
 "version": 1,
 "setup_cmd": "./setup.sh",
 "hooks": {
  "guard": "verif",
  "enable": "go build -tags verif (the /verif module replaces github.com/goghcrow/go-co with /repo, so every check compiles /repo's working tree)",
  "baseline_off_cmd": "cd /repo && GOFLAGS=-mod=mod GOPROXY=off GOSUMDB=off go test -vet=off -count=1 ./seq ./rewriter ./example ./example/lexer ./example/linq ./example/sched1 ./example/sched2 ./example/tree",
  "source_commits": [],
  "add_only": True,
 },
 "engines": [
  {"name": "verif", "path": "/verif/cmd/verif", "serves_properties": sorted(CHECKS), "kind_free_text": "hand-written bounded-exhaustive explorers in Go: stateless DFS with replay over environment answers and injected panics on generated programs compiled by the real go-co pipeline, against Go itself running the same source on a goroutine coroutine; exhaustive history/term/interleaving/input enumeration against small reference models for the seq runtime"},
 ],
 "checks": checks,
 "not_applicable": na,
 "notes": "All checks rebuild bin/verif and the driver from /repo's working tree (go build cache makes the unchanged case fast). Exit 0 = held on everything explored; exit 1 + VIOLATION line = violation; exit 2 = harness error.",
}
json.dump(m, open(os.path.join(ROOT, "MANIFEST.json"), "w"), indent=1)
print("wrote MANIFEST.json with", len(checks), "checks;", len(na), "not claimed")
