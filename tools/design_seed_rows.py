#!/usr/bin/env python3
"""Rewrites the seeded-defect table of DESIGN.md section 7.1 from seeded/*/meta.json."""
import json, glob, os, re
root = os.path.dirname(os.path.dirname(os.path.abspath(__file__)))
p = root + "/DESIGN.md"
s = open(p).read()
rows = []
for m in sorted(glob.glob(root + "/seeded/*/meta.json")):
    d = json.load(open(m))
    fe = d["first_evaluation"]
    short = re.split(r" — |:| by |;|,", fe)[0][:44]
    rows.append("| %s | %s | %s | %s |" % (d["id"], d["summary"][:150].replace("|", "\\|"),
        "; ".join("%s %s" % (c["check"], c["verdict"].lower()) for c in d["checks"]), short))
head = "| seeded | change (abridged) | checks now | first evaluation |\n|---|---|---|---|\n"
i = s.index(head) + len(head)
j = s.index("\n\nWhat the misses taught")
s = s[:i] + "\n".join(rows) + s[j:]
open(p, "w").write(s)
print(len(rows), "rows")
