#!/bin/bash
# tools/seed_eval.sh <ID> <seed dir> <check id>...   e.g. tools/seed_eval.sh C04 /tmp/seed/C04/SEED C04 C10
# 1. confirms the seeded change independently in a fresh scratch worktree (tests pass, demo fails with / passes without)
# 2. copies it to /verif/seeded/<ID>/ and runs the given quick checks against it (apply to /repo, check, revert)
set -u
cd "$(dirname "$0")/.."
id=$1; seed=$2; shift 2
export GOFLAGS=-mod=mod GOPROXY=off GOSUMDB=off GOTOOLCHAIN=local
dst=seeded/$id; rm -rf $dst; mkdir -p $dst
cp $seed/patch.diff $dst/patch.diff; cp -r $seed/demo $dst/demo; cp $seed/README.md $dst/AGENT_README.md 2>/dev/null
rm -rf $dst/demo/work/out $dst/demo/tmp 2>/dev/null
wt=/tmp/seedverify-$id; git -C /repo worktree remove --force $wt 2>/dev/null; git -C /repo worktree add --detach $wt HEAD >/dev/null 2>&1
demo() { (cd $dst/demo && timeout 600 bash ./run.sh $wt) >/tmp/seed_demo_$id.log 2>&1; echo $?; }
clean=$(demo)
if ! git -C $wt apply $PWD/$dst/patch.diff; then echo "$id: patch does not apply"; git -C /repo worktree remove --force $wt; exit 1; fi
if (cd $wt && go build ./... && go test -vet=off -count=1 ./seq ./rewriter ./example ./example/lexer ./example/linq ./example/sched1 ./example/sched2 ./example/tree) >/tmp/seed_tests_$id.log 2>&1; then tests=pass; else tests=FAIL; fi
git -C $wt checkout -- rewriter/test 2>/dev/null
broken=$(demo)
git -C /repo worktree remove --force $wt
echo "$id: demo exit on clean tree=$clean, stable tests with change=$tests, demo exit with change=$broken"
res=$(MUT_SKIP_TESTS=1 tools/mutate.sh $dst/patch.diff "$@" | sed "s/^patch.diff/seeded-$id/")
echo "$res"
python3 - "$id" "$clean" "$tests" "$broken" "$res" <<'PY'
import json,sys
id,clean,tests,broken,res=sys.argv[1:6]
checks=[]
for l in res.splitlines():
    f=l.split('\t')
    if len(f)>=5: checks.append({"check":f[1],"verdict":f[3],"violations":f[4].split('=')[-1],"first":f[5] if len(f)>5 else ""})
meta={"id":id,"breaks_property":id[:3],"confirmed":{"demo_exit_on_unchanged_tree":int(clean),"stable_tests_with_change":tests,"demo_exit_with_change":int(broken)},
      "what_i_ran":"tools/seed_eval.sh: fresh scratch worktree of /repo HEAD; demo/run.sh on it (must exit 0); git apply patch.diff; the 8 stable test packages (must pass); demo/run.sh again (must exit non-zero); worktree removed; then git -C /repo apply, the listed quick checks, git -C /repo apply -R",
      "checks":checks}
json.dump(meta,open('/verif/seeded/%s/meta.json'%id,'w'),indent=1)
PY
