#!/usr/bin/env python3
"""tools/seed_prompt.py <round dir> <property id>...
Writes <round dir>/<id>.prompt.txt: the complete task text handed to a fresh sub-agent that seeds a
property-breaking change in its own scratch worktree <round dir>/<id> (created by the caller with
`git -C /repo worktree add --detach <round dir>/<id> HEAD`). The agent sees the property record and a
one-line summary of the earlier seeds of the same property (so that it picks another mechanism);
nothing else from /verif."""
import json, glob, os, sys

ROOT = os.path.dirname(os.path.dirname(os.path.abspath(__file__)))
rdir, ids = sys.argv[1], sys.argv[2:]
props = {}
for l in open(ROOT + "/properties.jsonl"):
    p = json.loads(l)
    props[p["id"]] = p

HEAD = """You are helping to evaluate a verification harness by writing a realistic, subtle, property-breaking change ("seeded defect") to a Go project. You work ONLY inside your own scratch git worktree: {wt}. Never read or write /repo or /verif (they are off-limits); everything you need is in the worktree.

The project is goghcrow/go-co: a Go source-to-source compiler (package `rewriter`, command `cmd/cogen`) that rewrites generator functions using `Yield`/`YieldFrom` (stub API in `co.go`) into monadic continuation-style code over a small runtime (package `seq`). Start from README.md, seq/seq.go, seq/iter.go, rewriter/*.go, rewriter/test/src (golden tests), example/.

The semantic property you must break is this (JSON record; `anchors` tells you where the mechanism lives):

{prop}

Your task: make ONE small change to the project's non-test source (rewriter/, seq/, co.go or cmd/) such that
 1. the project still compiles, and the existing stable test suite still passes UNEDITED:
      cd {wt} && export GOFLAGS=-mod=mod GOPROXY=off GOSUMDB=off GOTOOLCHAIN=local && go test -vet=off -count=1 ./seq ./rewriter ./example ./example/lexer ./example/linq ./example/sched1 ./example/sched2 ./example/tree
    (do NOT run `go test ./...`: example/microthread contains an endless test. The sandbox is offline; always export those variables. rewriter.TestRewrite compares generated text with golden files under rewriter/test/src/*.out and *.tmp, so your change must not alter the code generated for the shapes those goldens contain.)
 2. the property above no longer holds; and
 3. the breakage needs something SPECIFIC to manifest — a particular statement shape or nesting, a particular input value, a multi-step sequence of operations, a particular interleaving, a particular file/package layout, or two cooperating code sites that each look fine alone — NOT something that ordinary use or a casual smoke test would expose at once. Think of the kind of bug a maintainer could plausibly introduce in a refactoring or "optimisation" and that would survive review. Do not just delete a feature, add an `if name == "..."` special case, or insert an obviously malicious branch.

Then write a demonstration that FAILS with your change and PASSES without it: either a Go test file or a small Go program (it may compile generator source with the real compiler: see rewriter/rewrite_test.go for how `rewriter.Compile(src, dst)` is driven, and cmd/cogen for go:generate mode; note the compiler behaves slightly differently when run under `go test` — it keeps the intermediate directory and uses non-unique helper names — so a standalone `go run` program calling rewriter.Compile is closer to production). The demonstration must be runnable offline with the toolchain in this sandbox, inside or next to the worktree (a temporary Go module with `replace github.com/goghcrow/go-co => {wt}` and a copy of {wt}/go.sum works).

Verify all of this yourself: (a) stable tests pass with the change; (b) the demo fails with the change; (c) reverse-apply the change (`git diff > {wt}.p; git apply -R {wt}.p`) and the demo passes; then re-apply it (`git apply {wt}.p`). Do NOT use `git stash`: the stash is shared with other engineers' worktrees.

Deliver, inside {wt}/SEED/ :
  - patch.diff  : `git diff` of your change to the project sources only (apply-able with `git apply` at the worktree's HEAD; do not include SEED/ or demo files in it)
  - demo/       : the demonstration files plus a run.sh that exits non-zero when the property is broken and 0 when it holds (run.sh takes the path of the go-co tree to test as $1, default {wt})
  - README.md   : what you changed, why the stable tests do not notice, what exactly is needed to make it manifest, and the output of your verification runs (a)-(c).
Leave the worktree with your change applied. Your final answer should summarise the change in 5-10 lines (files/functions touched, trigger condition, demo command).
"""

TAIL = """Look for places none of them touched. Ideas that tend to survive review: an off-by-one or ordering slip in a rarely taken branch; state that is correct for the first use but not reset for the second (second file, second function, second call, second loop); a condition that is right for the common types but wrong for a particular kind (named types, generic instantiations, method generators, function-typed or interface-typed elements, embedded fields, parenthesised or multi-line forms); an interaction between two existing features that each work alone (e.g. type switch with binding + yield + closure; switch init + break; nested generator literals + YieldFrom + return; for-range with key only + continue).
"""

for id in ids:
    wt = rdir.rstrip("/") + "/" + id
    prev = []
    for m in sorted(glob.glob(ROOT + "/seeded/%s*/meta.json" % id)):
        d = json.load(open(m))
        prev.append((d.get("summary", "?"), d.get("needs", "?")))
    txt = HEAD.format(wt=wt, prop=json.dumps(props[id], indent=1))
    if prev:
        txt += "\n\nIMPORTANT: %d other engineers have already seeded defects for this property; choose a clearly DIFFERENT mechanism (different function or file, different kind of trigger) from all of them:\n" % len(prev)
        for i, (s, n) in enumerate(prev, 1):
            txt += "  %d) %s\n     trigger: %s\n" % (i, s, n)
    txt += TAIL
    open("%s/%s.prompt.txt" % (rdir, id), "w").write(txt)
    print("wrote", "%s/%s.prompt.txt" % (rdir, id))
