#!/bin/bash
# tools/mutate.sh <patch.diff> <check id> [<check id>...]
# Applies a property-breaking patch to /repo, runs the stable test suite and the given quick checks,
# reverts the patch, and appends one line per check to mutations/RESULTS.tsv.
set -u
cd "$(dirname "$0")/.."
patch=$(readlink -f "$1"); shift
export GOFLAGS=-mod=mod GOPROXY=off GOSUMDB=off GOTOOLCHAIN=local
if [ -n "$(git -C /repo status --porcelain)" ]; then echo "/repo is not clean" >&2; exit 2; fi
if ! git -C /repo apply "$patch"; then echo "patch does not apply" >&2; exit 2; fi
revert() { git -C /repo apply -R "$patch" 2>/dev/null; git -C /repo checkout -- . ; git -C /repo clean -fdq -- rewriter seq cmd 2>/dev/null; }
trap revert EXIT
tests=skipped
if [ "${MUT_SKIP_TESTS:-}" = "" ]; then
  if (cd /repo && go build ./... && go test -vet=off -count=1 ./seq ./rewriter ./example ./example/lexer ./example/linq ./example/sched1 ./example/sched2 ./example/tree) >/tmp/mut_tests.log 2>&1; then tests=pass; else tests=FAIL; fi
  git -C /repo checkout -- rewriter/test 2>/dev/null
fi
for id in "$@"; do
  out=$(./run_check.sh "$id" "${MUT_TIER:-quick}" 2>&1); code=$?
  nv=$(echo "$out" | grep -c '^VIOLATION')
  first=$(echo "$out" | grep -A2 '^VIOLATION' | sed -n '2,3p' | tr '\n' ' ' | cut -c1-200)
  verdict=MISSED; [ $code -eq 1 ] && [ $nv -gt 0 ] && verdict=DETECTED; [ $code -eq 2 ] && verdict=HARNESS-ERROR
  printf "%s\t%s\ttests=%s\t%s\tviolations=%s\t%s\n" "$(basename "$patch")" "$id" "$tests" "$verdict" "$nv" "$first" | tee -a mutations/RESULTS.tsv
done
