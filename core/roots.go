package core

// Roots keeps, of a set of failures of one check, only those whose one-step reductions do not
// fail in the same way (same kind and detail). reductions(key) lists the keys of the one-step
// reductions of a failing case; they are smaller members of the same enumerated space, hence
// already judged. Derived failures are counted on the root they lead to.
func Roots(fails []Failure, reductions func(key string) []string) []Failure {
	type kd struct{ key, kind, detail string }
	idx := map[kd]int{}
	for i, f := range fails {
		idx[kd{f.Key, f.Kind, f.Detail}] = i
	}
	parent := make([]int, len(fails))
	for i, f := range fails {
		parent[i] = -1
		for _, r := range reductions(f.Key) {
			if j, ok := idx[kd{r, f.Kind, f.Detail}]; ok && j != i {
				parent[i] = j
				break
			}
		}
	}
	derived := make([]int, len(fails))
	for i := range fails {
		j, steps := i, 0
		for parent[j] >= 0 && steps < 1000 {
			j = parent[j]
			steps++
		}
		if j != i {
			derived[j]++
		}
	}
	var out []Failure
	for i, f := range fails {
		if parent[i] < 0 {
			f.Derived = derived[i]
			out = append(out, f)
		}
	}
	return out
}
