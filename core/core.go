// Package core holds what every check shares: the failure record, matching against
// /verif/known-findings.json, replay files, the evidence writer and the exit protocol.
package core

import (
	"crypto/sha1"
	"encoding/hex"
	"encoding/json"
	"fmt"
	"os"
	"path/filepath"
	"regexp"
	"sort"
	"strconv"
	"strings"
	"time"
)

// Root is the directory of the verification tree (/verif unless VERIF_ROOT is set).
func Root() string {
	if r := os.Getenv("VERIF_ROOT"); r != "" {
		return r
	}
	return "/verif"
}

// Repo is the tree under verification.
func Repo() string {
	if r := os.Getenv("VERIF_REPO"); r != "" {
		return r
	}
	return "/repo"
}

// Failure is one root failure of one property.
type Failure struct {
	Property string `json:"property"`
	// Key identifies the failing case canonically: a program in S-expression form, an input,
	// a history, a layout. A known finding suppresses exactly one (Property, Key, Kind, Detail).
	Key    string `json:"key"`
	Kind   string `json:"kind"`
	Detail string `json:"detail"`
	// What is a one-line human description used in KNOWN-FINDING lines.
	What string `json:"what,omitempty"`
	// Derived counts the non-root failures that reduce to this root.
	Derived int `json:"derived,omitempty"`
	// Replay is everything needed to reproduce the failure without the explorer.
	Replay any `json:"replay,omitempty"`
}

type Finding struct {
	Property string `json:"property"`
	Key      string `json:"key"`
	Kind     string `json:"kind"`
	Detail   string `json:"detail"`
	// KeyRegex, when set, replaces the exact Key match (used where one defect has a family of
	// minimal failing inputs); kind and detail must still match exactly.
	KeyRegex string `json:"key_regex,omitempty"`
	Status   string `json:"status"` // open | fixed
	Commit   string `json:"commit,omitempty"`
	What     string `json:"what"`
	Note     string `json:"note,omitempty"`
}

type findingsFile struct {
	Findings []Finding `json:"findings"`
}

func LoadFindings() []Finding {
	b, err := os.ReadFile(filepath.Join(Root(), "known-findings.json"))
	if err != nil {
		return nil
	}
	var f findingsFile
	if err := json.Unmarshal(b, &f); err != nil {
		fmt.Fprintln(os.Stderr, "known-findings.json is not valid JSON:", err)
		os.Exit(2)
	}
	return f.Findings
}

// Report accumulates what a check run covered and what failed.
type Report struct {
	Property    string
	Tier        string
	Seed        int
	Start       time.Time
	Coverage    map[string]any
	Assumptions []string
	Failures    []Failure
	Samples     []any
	Exhaustive  bool
	Notes       []string
}

func NewReport(prop, tier string) *Report {
	seed := 0
	if s := os.Getenv("VERIF_SEED"); s != "" {
		seed, _ = strconv.Atoi(s)
	}
	return &Report{Property: prop, Tier: tier, Seed: seed, Start: time.Now(),
		Coverage: map[string]any{}, Exhaustive: true}
}

func (r *Report) Add(key string, n int) {
	v, _ := r.Coverage[key].(int)
	r.Coverage[key] = v + n
}
func (r *Report) Set(key string, v any) { r.Coverage[key] = v }
func (r *Report) Int(key string) int    { v, _ := r.Coverage[key].(int); return v }
func (r *Report) Sample(s any) {
	if len(r.Samples) < 12 {
		r.Samples = append(r.Samples, s)
	}
}
func (r *Report) Fail(f Failure) {
	f.Property = r.Property
	r.Failures = append(r.Failures, f)
}
func (r *Report) Assume(s string) { r.Assumptions = append(r.Assumptions, s) }
func (r *Report) NotExhaustive(why string) {
	r.Exhaustive = false
	r.Notes = append(r.Notes, why)
}

func hash(s string) string {
	h := sha1.Sum([]byte(s))
	return hex.EncodeToString(h[:])[:12]
}

// Finish matches failures against known findings, writes replays and evidence, prints the
// protocol lines and returns the process exit code.
func (r *Report) Finish() int {
	known := LoadFindings()
	violations := 0
	var knownHit []string
	var proposed []Finding
	// deterministic order
	sort.SliceStable(r.Failures, func(i, j int) bool {
		a, b := r.Failures[i], r.Failures[j]
		if a.Kind != b.Kind {
			return a.Kind < b.Kind
		}
		if len(a.Key) != len(b.Key) {
			return len(a.Key) < len(b.Key)
		}
		return a.Key < b.Key
	})
	seen := map[string]bool{}
	for _, f := range r.Failures {
		id := f.Property + "\x00" + f.Key + "\x00" + f.Kind + "\x00" + f.Detail
		if seen[id] {
			continue
		}
		seen[id] = true
		matched := false
		for _, k := range known {
			if k.Status == "open" && k.Property == f.Property && keyMatches(k, f.Key) && k.Kind == f.Kind && k.Detail == f.Detail {
				matched = true
				what := k.What
				if what == "" {
					what = f.What
				}
				line := fmt.Sprintf("KNOWN-FINDING: property=%s %s [%s: %s] case=%s", f.Property, what, f.Kind, f.Detail, f.Key)
				fmt.Println(line)
				knownHit = append(knownHit, line)
				break
			}
		}
		if matched {
			continue
		}
		violations++
		proposed = append(proposed, Finding{Property: f.Property, Key: f.Key, Kind: f.Kind, Detail: f.Detail, Status: "open", What: f.What})
		dir := filepath.Join(Root(), "replays")
		os.MkdirAll(dir, 0o755)
		path := filepath.Join(dir, fmt.Sprintf("%s-%s.json", f.Property, hash(id)))
		b, _ := json.MarshalIndent(f, "", " ")
		os.WriteFile(path, b, 0o644)
		fmt.Printf("VIOLATION property=%s replay=%s\n", f.Property, path)
		fmt.Printf("  kind=%s detail=%s\n  case=%s\n", f.Kind, f.Detail, f.Key)
		if f.What != "" {
			fmt.Printf("  %s\n", f.What)
		}
	}
	// maintenance aid (never read back by a check): candidate known-findings entries for review
	if len(proposed) > 0 {
		b, _ := json.MarshalIndent(proposed, "", " ")
		os.MkdirAll(filepath.Join(Root(), "replays"), 0o755)
		os.WriteFile(filepath.Join(Root(), "replays", r.Property+"-"+r.Tier+"-proposed.json"), b, 0o644)
	}
	r.writeEvidence(violations, knownHit)
	for _, n := range r.Notes {
		fmt.Println("note:", n)
	}
	fmt.Printf("%s %s: states=%v transitions=%v traces=%v violations=%d known=%d exhaustive=%v wall=%.1fs\n",
		r.Property, r.Tier, r.Coverage["states"], r.Coverage["transitions"], r.Coverage["traces_validated_against_impl"],
		violations, len(knownHit), r.Exhaustive, time.Since(r.Start).Seconds())
	if violations > 0 {
		return 1
	}
	return 0
}

func (r *Report) writeEvidence(violations int, knownHit []string) {
	cov := map[string]any{}
	for k, v := range r.Coverage {
		cov[k] = v
	}
	for _, k := range []string{"states", "transitions", "traces_validated_against_impl"} {
		if _, ok := cov[k]; !ok {
			cov[k] = 0
		}
	}
	if len(r.Samples) == 0 {
		r.Samples = []any{"(no case explored)"}
	}
	cov["samples"] = r.Samples
	cov["exhaustive"] = r.Exhaustive
	if len(r.Notes) > 0 {
		cov["notes"] = r.Notes
	}
	if len(knownHit) > 0 {
		cov["known_findings_reproduced"] = knownHit
	}
	ev := map[string]any{
		"property_id": r.Property,
		"tier":        r.Tier,
		"seed":        r.Seed,
		"level":       "model_checking",
		"coverage":    cov,
		"assumptions": append([]string{}, r.Assumptions...),
		"wall_s":      float64(int(time.Since(r.Start).Seconds()*100)) / 100,
		"violations":  violations,
	}
	dir := filepath.Join(Root(), "evidence")
	os.MkdirAll(dir, 0o755)
	b, _ := json.MarshalIndent(ev, "", " ")
	tmp := filepath.Join(dir, "."+r.Property+".json.tmp")
	os.WriteFile(tmp, append(b, '\n'), 0o644)
	os.Rename(tmp, filepath.Join(dir, r.Property+".json"))
}

// HarnessError ends the process with exit 2: the machinery itself is broken, which is neither
// "holds" nor a violation.
func HarnessError(format string, a ...any) {
	fmt.Fprintf(os.Stderr, "HARNESS-ERROR: "+format+"\n", a...)
	os.Exit(2)
}

func JoinInts(xs []int) string {
	var sb strings.Builder
	for i, x := range xs {
		if i > 0 {
			sb.WriteByte(',')
		}
		sb.WriteString(strconv.Itoa(x))
	}
	return sb.String()
}

func keyMatches(k Finding, key string) bool {
	if k.KeyRegex != "" {
		re, err := regexp.Compile(k.KeyRegex)
		if err != nil {
			fmt.Fprintln(os.Stderr, "known-findings.json: bad key_regex:", err)
			os.Exit(2)
		}
		return re.MatchString(key)
	}
	return k.Key == key
}
