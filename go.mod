module verif

go 1.21

require (
	github.com/goghcrow/go-co v0.0.0
	github.com/goghcrow/go-loader v0.0.4-0.20240221113906-cab11067771f
	golang.org/x/tools v0.18.0
)

require (
	github.com/goghcrow/go-ast-matcher v0.1.3 // indirect
	github.com/goghcrow/go-imports v0.0.3-0.20240221114019-5a6ed41cc3b5 // indirect
	github.com/goghcrow/go-matcher v0.0.5-0.20240221112341-6675288f4167 // indirect
	golang.org/x/mod v0.15.0 // indirect
)

replace github.com/goghcrow/go-co => /repo
