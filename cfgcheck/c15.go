package cfgcheck

import (
	"fmt"
	"os"
	"path/filepath"
	"regexp"
	"runtime"
	"sort"
	"strings"
	"sync"
	"time"

	"verif/core"
)

// C15 — compiling the same sources always produces byte-identical generated files, whatever else
// is processed in the same invocation and whatever earlier runs left on disk; helper identifiers
// are unique within a file.

const target15 = `package src

import (
	"strings"

	. "github.com/goghcrow/go-co"
)

// two sequential ranges and a nested one in one generator: three iterator temporaries
func Target(xs []int, s string) Iter[int] {
	for i, x := range xs {
		Yield(i + x)
	}
	for _, r := range s {
		for k := range map[string]int{"a": 1} {
			Yield(int(r) + len(k))
		}
	}
	for range strings.Repeat("x", 2) {
		Yield(0)
	}
	return nil
}

func pair(a int) [2]int { return [2]int{a, a + 1} }

// two ranges over non-addressable array operands in one block, the first without a yield
func Target3() Iter[int] {
	n := 0
	for _, v := range pair(1) {
		n += v
	}
	for _, v := range pair(n) {
		Yield(v)
	}
	return nil
}

// generator literals with comments, delegation
func Target2(n int) Iter[string] {
	// a comment before the literal
	inner := func(k int) Iter[string] {
		// a comment inside
		for i := 0; i < k; i++ {
			Yield(strings.Repeat("a", i)) // trailing comment
		}
		return nil
	}
	YieldFrom(inner(n))
	for v := range inner(2) {
		Yield(v + "!")
	}
	return nil
}
`

// lits15: many generator function literals with comments in one file: the "original source"
// comments the compiler attaches are free-floating and must stay in source order
func lits15() string {
	var sb strings.Builder
	sb.WriteString("package src\n\nimport . \"github.com/goghcrow/go-co\"\n\nfunc Lits() []func() Iter[int] {\n\tvar fs []func() Iter[int]\n")
	for i := 0; i < 10; i++ {
		fmt.Fprintf(&sb, "\t// literal %d\n\tfs = append(fs, func() Iter[int] {\n\t\tfor _, x := range []int{%d} {\n\t\t\tYield(x) // yields %d\n\t\t}\n\t\treturn nil\n\t})\n", i, i, i)
	}
	sb.WriteString("\treturn fs\n}\n")
	return sb.String()
}

// model15: a file without generator literals whose declarations carry every kind of comment; it is
// always present and sorts before lits.go, so only a companion can put a literal-bearing file in front of it
const model15 = `package src

import . "github.com/goghcrow/go-co"

// Model is a plain type next to a generator
type Model struct {
	// ID documents a field
	ID   int    // trailing field comment
	Name string // the name
}

// kinds
const (
	KindA = iota // first kind
	KindB        // second kind
)

var (
	// Default documents a spec
	Default = Model{ID: 1} // trailing spec comment
)

// Models yields the ids
func Models(ms []Model) Iter[int] {
	// a comment inside a generator declaration
	for _, m := range ms {
		Yield(m.ID) // trailing
	}
	return nil
}
`

var companions15 = map[string][2]string{
	"litbefore": {"a_lit.go", "package src\n\nimport . \"github.com/goghcrow/go-co\"\n\n// LitBefore has a generator literal with a comment\nfunc LitBefore() func() Iter[int] {\n\t// before the literal\n\treturn func() Iter[int] {\n\t\tYield(1) // one\n\t\treturn nil\n\t}\n}\n"},
	"before": {"a_before.go", "package src\n\nimport . \"github.com/goghcrow/go-co\"\n\nfunc Before() Iter[int] {\n\tfor _, x := range []int{1} {\n\t\tYield(x)\n\t}\n\treturn nil\n}\n"},
	"after":  {"z_after.go", "package src\n\nimport . \"github.com/goghcrow/go-co\"\n\nfunc After() Iter[int] {\n\tfor _, x := range []int{1} {\n\t\tfor _, y := range []int{2} {\n\t\t\tYield(x + y)\n\t\t}\n\t}\n\treturn nil\n}\n"},
	"plain":  {"plain.go", "package src\n\nfunc Plain() int { return 1 }\n"},
	"subpkg": {"sub/sub.go", "package sub\n\nimport . \"github.com/goghcrow/go-co\"\n\nfunc Sub() Iter[int] {\n\tfor _, x := range []int{1} {\n\t\tYield(x)\n\t}\n\treturn nil\n}\n"},
	"test":   {"target_test.go", "package src\n\nimport (\n\t\"testing\"\n\n\t. \"github.com/goghcrow/go-co\"\n)\n\nfunc TestT(t *testing.T) {\n\tg := func() Iter[int] {\n\t\tfor _, x := range []int{1} {\n\t\t\tYield(x)\n\t\t}\n\t\treturn nil\n\t}\n\tfor v := range g() {\n\t\t_ = v\n\t}\n}\n"},
}
var compNames15 = []string{"before", "after", "plain", "subpkg", "test", "litbefore"}
var states15 = []string{"clean", "previous", "stale-tmp", "ghost"}

type cfg15 struct {
	comps []string
	state string
}

func (c cfg15) key() string { return "{" + strings.Join(c.comps, ",") + "}|" + c.state }

type res15 struct {
	cfg     cfg15
	target  string // bytes of the generated target file (first run)
	second  string // bytes after the second run
	files   []string
	extra   []string
	failure string
	steps   int
}

// temporaries of lowered range statements are hoisted into the enclosing block, where two equal names
// clash; the `for ɪʇ := g; ...` of a consumer loop is scoped to its own for statement and cannot
var iterTmpRe = regexp.MustCompile(`(ɪʇ\d*) := \S+\.New(?:String|Slice|Map|Chan|Integer)Iter\(|(ɐɹɹ\d*) := `)

func run15(c cfg15, drv string) res15 {
	r := res15{cfg: c}
	tmp, err := os.MkdirTemp("", "verif-c15-")
	if err != nil {
		core.HarnessError("%v", err)
	}
	defer os.RemoveAll(tmp)
	gomod := fmt.Sprintf("module m\n\ngo 1.21\n\nrequire github.com/goghcrow/go-co v0.0.0\n\nreplace github.com/goghcrow/go-co => %s\n", core.Repo())
	os.WriteFile(filepath.Join(tmp, "go.mod"), []byte(gomod), 0o644)
	b, _ := os.ReadFile(filepath.Join(core.Repo(), "go.sum"))
	os.WriteFile(filepath.Join(tmp, "go.sum"), b, 0o644)
	src, dst := filepath.Join(tmp, "src"), filepath.Join(tmp, "dst")
	os.MkdirAll(src, 0o755)
	os.WriteFile(filepath.Join(src, "target.go"), []byte(target15), 0o644)
	os.WriteFile(filepath.Join(src, "lits.go"), []byte(lits15()), 0o644)
	os.WriteFile(filepath.Join(src, "k_model.go"), []byte(model15), 0o644)
	expect := map[string]bool{"target.go": true, "lits.go": true, "k_model.go": true}
	env := goEnv
	for _, n := range c.comps {
		f := companions15[n]
		p := filepath.Join(src, f[0])
		os.MkdirAll(filepath.Dir(p), 0o755)
		os.WriteFile(p, []byte(f[1]), 0o644)
		if n != "plain" {
			expect[f[0]] = true
		}
		if n == "test" {
			env = append(append([]string{}, goEnv...), "DRV_LOAD_TEST=1")
		}
	}
	compile := func() (string, int) {
		r.steps++
		return run(tmp, env, 5*time.Minute, drv, "real", src, dst)
	}
	switch c.state {
	case "previous":
		if o, code := compile(); code != 0 {
			r.failure = "compile failed: " + firstLine(o)
			return r
		}
	case "stale-tmp":
		// what an aborted earlier run leaves behind: the old fixed-name intermediate directory
		os.MkdirAll(dst+"_tmp", 0o755)
		os.WriteFile(filepath.Join(dst+"_tmp", "stale.go"), []byte("package src\n\nimport \"github.com/goghcrow/go-co/seq\"\n\nvar Stale seq.Iterator[int]\n"), 0o644)
	case "ghost":
		os.MkdirAll(dst, 0o755)
		os.WriteFile(filepath.Join(dst, "ghost.go"), []byte("package src\n\nfunc Ghost() {}\n"), 0o644)
		expect["ghost.go"] = true // untouched, not generated
	}
	if o, code := compile(); code != 0 {
		r.failure = "compile failed: " + firstLine(o)
		return r
	}
	tb, err := os.ReadFile(filepath.Join(dst, "target.go"))
	if err != nil {
		r.failure = "target file not generated"
		return r
	}
	lb, _ := os.ReadFile(filepath.Join(dst, "lits.go"))
	mb, _ := os.ReadFile(filepath.Join(dst, "k_model.go"))
	r.target = string(tb) + "\n// ==== lits.go\n" + string(lb) + "\n// ==== lits.go\n" + string(mb)
	filepath.Walk(dst, func(p string, info os.FileInfo, err error) error {
		if err == nil && !info.IsDir() {
			rel, _ := filepath.Rel(dst, p)
			r.files = append(r.files, rel)
			if !expect[rel] {
				r.extra = append(r.extra, rel)
			}
		}
		return nil
	})
	sort.Strings(r.files)
	if o, code := compile(); code != 0 {
		r.failure = "second compile failed: " + firstLine(o)
		return r
	}
	tb2, _ := os.ReadFile(filepath.Join(dst, "target.go"))
	lb2, _ := os.ReadFile(filepath.Join(dst, "lits.go"))
	mb2, _ := os.ReadFile(filepath.Join(dst, "k_model.go"))
	r.second = string(tb2) + "\n// ==== lits.go\n" + string(lb2) + "\n// ==== lits.go\n" + string(mb2)
	return r
}

func C15(tier string) *core.Report {
	r := core.NewReport("C15", tier)
	drv := filepath.Join(core.Root(), "bin", "drv")
	var cfgs []cfg15
	for mask := 0; mask < 1<<len(compNames15); mask++ {
		var comps []string
		for i, n := range compNames15 {
			if mask>>i&1 == 1 {
				comps = append(comps, n)
			}
		}
		for _, st := range states15 {
			if tier != "thorough" && len(comps) > 1 && len(comps) < len(compNames15) {
				continue // quick: no companion, each single companion, all companions
			}
			cfgs = append(cfgs, cfg15{comps, st})
		}
	}
	results := make([]res15, len(cfgs))
	var wg sync.WaitGroup
	sem := make(chan struct{}, runtime.NumCPU()/2+1)
	for i := range cfgs {
		i := i
		wg.Add(1)
		go func() {
			defer wg.Done()
			sem <- struct{}{}
			defer func() { <-sem }()
			results[i] = run15(cfgs[i], drv)
		}()
	}
	wg.Wait()
	ref := ""
	for _, rs := range results {
		if rs.cfg.key() == "{}|clean" {
			ref = rs.target
		}
	}
	if ref == "" {
		for _, rs := range results {
			if rs.target != "" {
				ref = rs.target
				break
			}
		}
	}
	distinct := map[string]bool{}
	for i, rs := range results {
		r.Add("states", 1)
		r.Add("transitions", rs.steps)
		r.Add("traces_validated_against_impl", 1)
		key := rs.cfg.key()
		if rs.failure != "" {
			r.Fail(core.Failure{Key: key, Kind: "compile-failed", Detail: rs.failure, What: "Compile fails in this configuration"})
			continue
		}
		distinct[rs.target] = true
		if rs.target != ref {
			r.Fail(core.Failure{Key: key, Kind: "output-depends-on-configuration", Detail: firstDiffLine(ref, rs.target),
				What:   "the bytes of the generated target file depend on other files/packages processed or on earlier outputs on disk",
				Replay: map[string]any{"reference_configuration": "{}|clean", "files": rs.files}})
		}
		if rs.second != rs.target {
			r.Fail(core.Failure{Key: key, Kind: "not-repeatable", Detail: firstDiffLine(rs.target, rs.second), What: "a second identical run produces different bytes"})
		}
		if len(rs.extra) > 0 {
			r.Fail(core.Failure{Key: key, Kind: "extra-output", Detail: "files without a source were written to the output directory",
				What: "a stale intermediate file materialises in the output", Replay: map[string]any{"extra": rs.extra}})
		}
		// helper identifiers pairwise distinct within the file
		seen := map[string]int{}
		for fi, part := range strings.Split(rs.target, "\n// ==== lits.go\n") {
			for _, m := range iterTmpRe.FindAllStringSubmatch(part, -1) {
				seen[fmt.Sprint(fi, ":", m[1], m[2])]++
			}
		}
		for name, n := range seen {
			if n > 1 {
				r.Fail(core.Failure{Key: key, Kind: "helper-name-clash", Detail: "an iterator temporary is declared more than once in one file",
					What: "generated helper identifiers are not unique within the file", Replay: map[string]any{"name": name, "declarations": n}})
				break
			}
		}
		if i%(len(results)/4+1) == 0 {
			r.Sample(map[string]any{"configuration": key, "generated_files": rs.files, "iterator_temporaries": len(seen)})
		}
	}
	r.Set("configurations", len(cfgs))
	r.Set("distinct_target_outputs", len(distinct))
	// static part: map iteration in the compiler would be a run-to-run nondeterminism source the enumeration cannot drive
	if hits := rangeOverMap(filepath.Join(core.Repo(), "rewriter")); len(hits) > 0 {
		r.Set("range_over_map_in_rewriter", hits)
	}
	r.Set("rule", "a fixed target file (sequential and nested ranges, generator literals with comments, delegation) plus a literal-free file with field / spec / line comments x every subset (quick: none, each single, all) of companions {API file sorting before, after, plain file, second package, test file, file with a generator literal sorting first} x pre-existing state {clean, previous output, stale fixed-name intermediate directory of an aborted run, foreign file in the output directory}; each configuration compiled twice by the real rewriter.Compile from a non-test binary; oracle: bytes of the target's generated file equal across all configurations and runs, no file without source in the output, iterator temporaries pairwise distinct")
	r.Assume("run-to-run nondeterminism from Go map iteration cannot be driven by enumeration; it is covered by the repeated runs (sampling) and reported, not claimed")
	return r
}

func firstDiffLine(a, b string) string {
	la, lb := strings.Split(a, "\n"), strings.Split(b, "\n")
	for i := 0; i < len(la) && i < len(lb); i++ {
		if la[i] != lb[i] {
			return fmt.Sprintf("line %d: %q vs %q", i+1, strings.TrimSpace(la[i]), strings.TrimSpace(lb[i]))
		}
	}
	return fmt.Sprintf("length %d vs %d lines", len(la), len(lb))
}

var rangeMapRe = regexp.MustCompile(`range\s+\w*[mM]ap\b`)

func rangeOverMap(dir string) []string {
	var out []string
	files, _ := filepath.Glob(filepath.Join(dir, "*.go"))
	for _, f := range files {
		if strings.HasSuffix(f, "_test.go") {
			continue
		}
		b, _ := os.ReadFile(f)
		for i, l := range strings.Split(string(b), "\n") {
			if rangeMapRe.MatchString(l) {
				out = append(out, fmt.Sprintf("%s:%d", filepath.Base(f), i+1))
			}
		}
	}
	return out
}
