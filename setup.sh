#!/bin/bash
# Builds the framework offline and pre-warms the go build cache.
set -eu
cd "$(dirname "$0")"
export GOFLAGS=-mod=mod GOPROXY=off GOSUMDB=off GOTOOLCHAIN=local
mkdir -p bin evidence
go build -tags verif -o bin/verif ./cmd/verif && go build -tags verif -o bin/drv ./cmd/drv
go build -tags verif ./...
echo setup ok
