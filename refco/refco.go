package refco

import "runtime"

type Iter[V any] interface {
	MoveNext() bool
	Current() V
}

type Killer interface{ OnKill(func()) }

type msg[V any] struct {
	v        V
	done     bool
	panicked bool
	pv       any
}

type Y[V any] struct {
	resume  chan bool // true = continue, false = kill
	out     chan msg[V]
	exiting bool // the coroutine is being torn down by Goexit (not a panic)
}

type coro[V any] struct {
	y       *Y[V]
	body    func(*Y[V])
	started bool
	done    bool
	cur     V
}

func New[V any](k Killer, body func(y *Y[V])) Iter[V] {
	c := &coro[V]{y: &Y[V]{resume: make(chan bool), out: make(chan msg[V])}, body: body}
	if k != nil {
		k.OnKill(c.kill)
	}
	return c
}

func (y *Y[V]) Yield(v V) {
	y.out <- msg[V]{v: v}
	if !<-y.resume {
		y.exiting = true
		runtime.Goexit()
	}
}

func (y *Y[V]) YieldFrom(it Iter[V]) {
	for it.MoveNext() {
		y.Yield(it.Current())
	}
}

func (c *coro[V]) run() {
	finished := false
	defer func() {
		// a completion flag, not recover() != nil: with GODEBUG=panicnil=1 (go < 1.21 modules) panic(nil) recovers as nil
		r := recover()
		if !finished && !c.y.exiting {
			c.y.out <- msg[V]{panicked: true, pv: r}
		}
	}()
	c.body(c.y)
	finished = true
	c.y.out <- msg[V]{done: true}
}

func (c *coro[V]) kill() {
	if c.started && !c.done {
		c.done = true
		c.y.resume <- false
	}
}

func (c *coro[V]) MoveNext() bool {
	if c.done {
		return false
	}
	if !c.started {
		c.started = true
		go c.run()
	} else {
		c.y.resume <- true
	}
	m := <-c.y.out
	var z V
	switch {
	case m.panicked:
		c.done = true
		c.cur = z
		panic(m.pv)
	case m.done:
		c.done = true
		c.cur = z
		return false
	default:
		c.cur = m.v
		return true
	}
}

func (c *coro[V]) Current() V { return c.cur }
