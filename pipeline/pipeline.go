// Package pipeline turns a list of generated programs into an explored shard: temporary Go module,
// native build, the real go-co compiler (plus the verif hook for the unoptimised stage and for
// isolating compile panics), go build of the output, a linked worker binary, and its execution.
package pipeline

import (
	"bufio"
	"bytes"
	"crypto/sha1"
	"crypto/sha256"
	"encoding/hex"
	"encoding/json"
	"fmt"
	"io"
	"os"
	"os/exec"
	"path/filepath"
	"regexp"
	"sort"
	"strconv"
	"strings"
	"sync/atomic"
	"syscall"
	"time"

	"verif/core"
	"verif/deriveref"
	"verif/harness"
)

const version = "pipeline-v7"

type Prog struct {
	ID   string `json:"id"`
	Key  string `json:"key"`
	S    string `json:"-"`
	R    string `json:"-"`
	Proc bool   `json:"proc,omitempty"`
	// OwnFile: S is a complete source file (own import block) instead of declarations placed
	// under the shard's common header.
	OwnFile bool `json:"own_file,omitempty"`
}

type Spec struct {
	Name     string
	Progs    []Prog
	SImports []string // import lines for S files besides the API and rt
	RImports []string
	SExtra   string // shared package-level declarations (S side), placed in their own file
	RExtra   string
	CoImport string // how S files import the API; default `. "github.com/goghcrow/go-co"`
	PerFile  int
	GoVer    string
	NoRef    bool // no reference side (C07/C11-only families): Ref = Out
	// DeriveRef: the reference package is derived from the S files by verif/deriveref instead of
	// being printed by the generator (hand-written and template families).
	DeriveRef bool
	// SFiles: complete extra source files (name -> content) of the S package, e.g. hand-written corpus
	SFiles map[string]string
	// SHeaderDecl is appended to the header of every generated S file (e.g. `var _ Iter[int]` so that
	// a file of pure consumers still uses the API import).
	SHeaderDecl string
	// NoTmp: the unoptimised stage is not needed (only C07 compares it): run the real Compile
	// directly and fall back to the hook only to isolate a compile panic.
	NoTmp bool
	// Race: link the worker with the race detector (C14's free-running supplement)
	Race bool
	// GoDebug: //go:debug settings of the worker's main package, e.g. "panicnil=1" (what a main module
	// with a go directive below 1.21 gets by default)
	GoDebug string
}

type Reject struct {
	Stage   string `json:"stage"`
	Message string `json:"message"`
	Sig     string `json:"sig"`
}

type Meta struct {
	Name        string             `json:"name"`
	Programs    int                `json:"programs"`
	Discarded   map[string]string  `json:"discarded,omitempty"` // not type-correct as plain Go
	Rejected    map[string]Reject  `json:"rejected,omitempty"`
	Unbuildable map[string]string  `json:"unbuildable,omitempty"`
	TmpUnbuild  map[string]string  `json:"tmp_unbuildable,omitempty"`
	Registry    []string           `json:"registry"`
	HookDiffers []string           `json:"hook_differs,omitempty"`
	Fatal       string             `json:"fatal,omitempty"`
	Secs        map[string]float64 `json:"secs"`
}

type Built struct {
	Dir  string
	Meta Meta
}

var goEnv = append(os.Environ(), "GOFLAGS=-mod=mod", "GOPROXY=off", "GOSUMDB=off", "GOTOOLCHAIN=local")

func run(dir string, timeout time.Duration, name string, args ...string) (stdout, stderr string, code int) {
	cmd := exec.Command(name, args...)
	cmd.Dir = dir
	cmd.Env = goEnv
	var o, e bytes.Buffer
	cmd.Stdout, cmd.Stderr = &o, &e
	cmd.SysProcAttr = &syscall.SysProcAttr{Setpgid: true}
	if err := cmd.Start(); err != nil {
		return "", err.Error(), 127
	}
	done := make(chan error, 1)
	go func() { done <- cmd.Wait() }()
	select {
	case err := <-done:
		if err != nil {
			if ee, ok := err.(*exec.ExitError); ok {
				return o.String(), e.String(), ee.ExitCode()
			}
			return o.String(), e.String() + err.Error(), 126
		}
		return o.String(), e.String(), 0
	case <-time.After(timeout):
		syscall.Kill(-cmd.Process.Pid, syscall.SIGKILL)
		<-done
		return o.String(), e.String() + "\nTIMEOUT", 124
	}
}

func hashFiles(h io.Writer, root string, globs ...string) {
	var files []string
	for _, g := range globs {
		m, _ := filepath.Glob(filepath.Join(root, g))
		files = append(files, m...)
	}
	sort.Strings(files)
	for _, f := range files {
		b, err := os.ReadFile(f)
		if err != nil {
			continue
		}
		fmt.Fprintf(h, "%s %d\n", strings.TrimPrefix(f, root), len(b))
		h.Write(b)
	}
}

var treeHash string

// TreeHash identifies the working trees that determine a shard's result: /repo's compiler and
// runtime sources and the harness support packages.
func TreeHash() string {
	if treeHash != "" {
		return treeHash
	}
	h := sha1.New()
	hashFiles(h, core.Repo(), "go.mod", "go.sum", "*.go", "rewriter/*.go", "seq/*.go", "cmd/cogen/*.go")
	hashFiles(h, core.Root(), "go.mod", "rt/*.go", "refco/*.go", "harness/*.go", "cmd/drv/*.go", "pipeline/*.go", "deriveref/*.go")
	io.WriteString(h, version)
	treeHash = hex.EncodeToString(h.Sum(nil))[:16]
	return treeHash
}

func (s *Spec) key() string {
	h := sha1.New()
	io.WriteString(h, TreeHash())
	fmt.Fprintf(h, "%s|%v|%v|%s|%s|%s|%d|%s|%v|%v|%v|%v|%s\n", s.Name, s.SImports, s.RImports, s.SExtra, s.RExtra, s.CoImport, s.PerFile, s.GoVer, s.NoRef, s.DeriveRef, s.Race, s.NoTmp, s.SHeaderDecl+"|"+s.GoDebug)
	for _, k := range sortedKeys(s.SFiles) {
		fmt.Fprintf(h, "%s\x00%s\n", k, s.SFiles[k])
	}
	for _, p := range s.Progs {
		fmt.Fprintf(h, "%s\x00%s\x00%s\x00%s\x00%v\x00%v\n", p.ID, p.Key, p.S, p.R, p.Proc, p.OwnFile)
	}
	return hex.EncodeToString(h.Sum(nil))[:20]
}

func cacheRoot() string { return filepath.Join(core.Root(), ".cache") }

// Build returns the built shard, from the cache when this exact (tree, spec) was built before.
func Build(s *Spec) (*Built, error) {
	key := s.key()
	dir := filepath.Join(cacheRoot(), TreeHash(), key)
	os.MkdirAll(filepath.Dir(dir), 0o755)
	lock, err := os.OpenFile(dir+".lock", os.O_CREATE|os.O_RDWR, 0o644)
	if err != nil {
		return nil, err
	}
	defer lock.Close()
	syscall.Flock(int(lock.Fd()), syscall.LOCK_EX)
	defer syscall.Flock(int(lock.Fd()), syscall.LOCK_UN)
	if b, err := os.ReadFile(filepath.Join(dir, "meta.json")); err == nil {
		var m Meta
		if json.Unmarshal(b, &m) == nil {
			now := time.Now()
			os.Chtimes(dir, now, now)
			return &Built{Dir: dir, Meta: m}, nil
		}
	}
	os.RemoveAll(dir)
	work, err := os.MkdirTemp("", "verif-shard-")
	if err != nil {
		return nil, err
	}
	defer os.RemoveAll(work)
	m, err := build(s, work)
	if err != nil {
		return nil, err
	}
	// publish: worker + meta + sources (for replay files)
	tmp := dir + ".part"
	os.RemoveAll(tmp)
	os.MkdirAll(tmp, 0o755)
	for _, d := range []string{"src", "ref", "out", "tmp"} {
		copyDir(filepath.Join(work, d), filepath.Join(tmp, d))
	}
	if _, err := os.Stat(filepath.Join(work, "worker")); err == nil {
		if err := os.Rename(filepath.Join(work, "worker"), filepath.Join(tmp, "worker")); err != nil {
			copyFile(filepath.Join(work, "worker"), filepath.Join(tmp, "worker"), 0o755)
		}
	}
	b, _ := json.MarshalIndent(m, "", " ")
	os.WriteFile(filepath.Join(tmp, "meta.json"), b, 0o644)
	if err := os.Rename(tmp, dir); err != nil {
		return nil, err
	}
	return &Built{Dir: dir, Meta: *m}, nil
}

func copyFile(src, dst string, mode os.FileMode) error {
	b, err := os.ReadFile(src)
	if err != nil {
		return err
	}
	return os.WriteFile(dst, b, mode)
}

func copyDir(src, dst string) {
	ents, err := os.ReadDir(src)
	if err != nil {
		return
	}
	os.MkdirAll(dst, 0o755)
	for _, e := range ents {
		if e.IsDir() {
			copyDir(filepath.Join(src, e.Name()), filepath.Join(dst, e.Name()))
		} else {
			copyFile(filepath.Join(src, e.Name()), filepath.Join(dst, e.Name()), 0o644)
		}
	}
}

// Evict removes cache entries of other trees and, beyond a size budget, the oldest of this one.
func Evict() {
	ents, _ := os.ReadDir(cacheRoot())
	type ent struct {
		path string
		t    time.Time
	}
	var trees []ent
	for _, e := range ents {
		if !e.IsDir() {
			continue
		}
		info, _ := e.Info()
		trees = append(trees, ent{filepath.Join(cacheRoot(), e.Name()), info.ModTime()})
	}
	now := time.Now()
	os.Chtimes(filepath.Join(cacheRoot(), TreeHash()), now, now)
	sort.Slice(trees, func(i, j int) bool { return trees[i].t.After(trees[j].t) })
	low := diskLow()
	for i, t := range trees {
		if (i >= 3 || low) && filepath.Base(t.path) != TreeHash() {
			os.RemoveAll(t.path)
		}
	}
	if low {
		// every shard build leaves its objects in the Go build cache, which Go only trims after days
		fmt.Fprintln(os.Stderr, "pipeline: less than 25 GiB free: clearing the Go build cache")
		cmd := exec.Command("go", "clean", "-cache")
		cmd.Env = append(os.Environ(), "GOFLAGS=-mod=mod", "GOPROXY=off", "GOSUMDB=off", "GOTOOLCHAIN=local")
		cmd.Run()
	}
}

func diskLow() bool {
	var st syscall.Statfs_t
	if err := syscall.Statfs(cacheRoot(), &st); err != nil {
		return false
	}
	return st.Bavail*uint64(st.Bsize) < 25<<30
}

func allInDir(errs []string, dir string) bool {
	for _, e := range errs {
		if !strings.HasPrefix(e, dir) {
			return false
		}
	}
	return len(errs) > 0
}

func firstOf(errs []string) string {
	if len(errs) == 0 {
		return ""
	}
	return errs[0]
}

var declRe = regexp.MustCompile(`^(?:func|type|var|const) (?:\([^)]*\) )?(P\d+)`)

// declRanges maps each program id to the line ranges [from,to) (0-based) of its declarations,
// including the comment block directly above each declaration.
func declRanges(lines []string) map[string][][2]int {
	type start struct {
		line int
		id   string
	}
	var starts []start
	for i, l := range lines {
		if m := declRe.FindStringSubmatch(l); m != nil {
			j := i
			for j > 0 && strings.HasPrefix(lines[j-1], "//") {
				j--
			}
			starts = append(starts, start{j, m[1]})
		}
	}
	res := map[string][][2]int{}
	for k, s := range starts {
		end := len(lines)
		if k+1 < len(starts) {
			end = starts[k+1].line
		}
		res[s.id] = append(res[s.id], [2]int{s.line, end})
	}
	return res
}

func progAtLine(lines []string, line int) string {
	for id, rs := range declRanges(lines) {
		for _, r := range rs {
			if line >= r[0] && line < r[1] {
				return id
			}
		}
	}
	return ""
}

// cutProgs removes the declarations of the given programs from a Go file; the file is deleted when
// no program is left in it.
func cutProgs(path string, bad map[string]bool) {
	b, err := os.ReadFile(path)
	if err != nil {
		return
	}
	lines := strings.Split(string(b), "\n")
	rs := declRanges(lines)
	if len(rs) == 0 {
		return // a helper file without programs
	}
	drop := make([]bool, len(lines))
	left := 0
	for id, rr := range rs {
		if bad[id] {
			for _, r := range rr {
				for i := r[0]; i < r[1]; i++ {
					drop[i] = true
				}
			}
		} else {
			left++
		}
	}
	if left == 0 {
		os.Remove(path)
		return
	}
	var out []string
	for i, l := range lines {
		if !drop[i] {
			out = append(out, l)
		}
	}
	os.WriteFile(path, []byte(strings.Join(out, "\n")), 0o644)
}

var errRe = regexp.MustCompile(`(?m)^(\S+\.go):(\d+):(\d+): (.*)$`)

// buildErrors maps go build diagnostics to programs.
func buildErrors(work, stderr string) (byProg map[string]string, unmapped []string) {
	byProg = map[string]string{}
	cache := map[string][]string{}
	for _, m := range errRe.FindAllStringSubmatch(stderr, -1) {
		file := m[1]
		if !filepath.IsAbs(file) {
			file = filepath.Join(work, file)
		}
		ln, _ := strconv.Atoi(m[2])
		lines, ok := cache[file]
		if !ok {
			b, _ := os.ReadFile(file)
			lines = strings.Split(string(b), "\n")
			cache[file] = lines
		}
		id := progAtLine(lines, ln-1)
		if id == "" {
			unmapped = append(unmapped, m[0])
			continue
		}
		if _, dup := byProg[id]; !dup {
			byProg[id] = NormalizeBuildError(m[4])
		}
	}
	return
}

var identRe = regexp.MustCompile(`P\d+(_\w+)?|ɪʇ\d*|ʌ\d*`)
var numRe = regexp.MustCompile(`\b\d+\b`)

// NormalizeBuildError strips program-specific names and numbers from a compiler diagnostic.
func NormalizeBuildError(msg string) string {
	msg = identRe.ReplaceAllString(msg, "ID")
	msg = numRe.ReplaceAllString(msg, "N")
	if len(msg) > 160 {
		msg = msg[:160]
	}
	return msg
}

var frameRe = regexp.MustCompile(`(?m)^github\.com/goghcrow/go-co/rewriter\.([^\n(]*(?:\([^)]*\))?[^\n(]*)\(`)
var locRe = regexp.MustCompile(`(?s) in: .*`)
var posRe = regexp.MustCompile(`[\w./-]+\.go:\d+(:\d+)?`)

// PanicSig normalises a compiler panic: message without location, plus the first rewriter frames.
func PanicSig(msg, stack string) string {
	msg = locRe.ReplaceAllString(msg, "")
	msg = posRe.ReplaceAllString(msg, "POS")
	msg = identRe.ReplaceAllString(msg, "ID")
	if i := strings.IndexByte(msg, '\n'); i >= 0 {
		msg = msg[:i]
	}
	var frames []string
	for _, m := range frameRe.FindAllStringSubmatch(stack, -1) {
		f := m[1]
		if strings.Contains(f, "assert") || strings.Contains(f, "VerifCompile") || strings.Contains(f, "panicIf") {
			continue
		}
		// closures: keep the enclosing function name
		f = regexp.MustCompile(`\.func\d+(\.\d+)*$`).ReplaceAllString(f, "")
		if len(frames) > 0 && frames[len(frames)-1] == f {
			continue
		}
		frames = append(frames, f)
		if len(frames) == 2 {
			break
		}
	}
	return msg + " @ " + strings.Join(frames, " < ")
}

func writeFiles(dir, pkg string, header string, progs []Prog, text func(Prog) string, perFile int) {
	os.MkdirAll(dir, 0o755)
	for i := 0; i < len(progs); i += perFile {
		j := i + perFile
		if j > len(progs) {
			j = len(progs)
		}
		var sb strings.Builder
		sb.WriteString(header)
		any := false
		for _, p := range progs[i:j] {
			if text(p) != "" {
				any = true
			}
			sb.WriteString(text(p))
			sb.WriteString("\n")
		}
		if !any {
			continue
		}
		os.WriteFile(filepath.Join(dir, fmt.Sprintf("f%04d.go", i/perFile)), []byte(sb.String()), 0o644)
	}
}

func importBlock(lines []string) string {
	return "import (\n\t" + strings.Join(lines, "\n\t") + "\n)\n\n"
}

type hookEvent struct {
	Stage, File, Message, Stack string
}

func parseHook(out string) []hookEvent {
	var evs []hookEvent
	for _, l := range strings.Split(out, "\n") {
		l = strings.TrimSpace(l)
		if !strings.HasPrefix(l, "{") {
			continue
		}
		var e hookEvent
		if json.Unmarshal([]byte(l), &e) == nil && e.File != "" {
			evs = append(evs, e)
		}
	}
	return evs
}

func drvPath() string { return filepath.Join(core.Root(), "bin", "drv") }

func build(s *Spec, work string) (*Meta, error) {
	m := &Meta{Name: s.Name, Programs: len(s.Progs), Secs: map[string]float64{},
		Discarded: map[string]string{}, Rejected: map[string]Reject{}, Unbuildable: map[string]string{}, TmpUnbuild: map[string]string{}}
	t0 := time.Now()
	lap := func(name string) {
		m.Secs[name] = float64(int(time.Since(t0).Seconds()*100)) / 100
		t0 = time.Now()
	}
	gover := s.GoVer
	if gover == "" {
		gover = "1.21"
	}
	perFile := s.PerFile
	if perFile == 0 {
		perFile = 10
	}
	coImport := s.CoImport
	if coImport == "" {
		coImport = `. "github.com/goghcrow/go-co"`
	}
	gomod := fmt.Sprintf("module w\n\ngo %s\n\nrequire (\n\tgithub.com/goghcrow/go-co v0.0.0\n\tverif v0.0.0\n)\n\nreplace github.com/goghcrow/go-co => %s\n\nreplace verif => %s\n", gover, core.Repo(), core.Root())
	os.WriteFile(filepath.Join(work, "go.mod"), []byte(gomod), 0o644)
	copyFile(filepath.Join(core.Root(), "go.sum"), filepath.Join(work, "go.sum"), 0o644)

	sHeader := "package src\n\n" + importBlock(append([]string{coImport, `"verif/rt"`}, s.SImports...)) + s.SHeaderDecl
	rHeader := "package ref\n\n" + importBlock(append([]string{`"verif/refco"`, `"verif/rt"`}, s.RImports...))
	src, ref, out, tmp := filepath.Join(work, "src"), filepath.Join(work, "ref"), filepath.Join(work, "out"), filepath.Join(work, "tmp")
	var shared []Prog
	for _, p := range s.Progs {
		if p.OwnFile {
			os.MkdirAll(src, 0o755)
			os.WriteFile(filepath.Join(src, "p_"+p.ID+".go"), []byte(p.S), 0o644)
		} else {
			shared = append(shared, p)
		}
	}
	writeFiles(src, "src", sHeader, shared, func(p Prog) string { return p.S }, perFile)
	if s.SExtra != "" {
		os.WriteFile(filepath.Join(src, "extra.go"), []byte(s.SExtra), 0o644)
	}
	for name, content := range s.SFiles {
		os.WriteFile(filepath.Join(src, name), []byte(content), 0o644)
	}
	if !s.NoRef && !s.DeriveRef {
		writeFiles(ref, "ref", rHeader, shared, func(p Prog) string { return p.R }, perFile)
		if s.RExtra != "" {
			os.WriteFile(filepath.Join(ref, "extra.go"), []byte(s.RExtra), 0o644)
		}
	}

	// 1. native build of S (ordinary Go thanks to the stubs) and R; programs that do not
	// type-check as plain Go are outside the quantifier and are dropped (counted).
	pkgs := []string{"./src/"}
	if !s.NoRef && !s.DeriveRef {
		pkgs = append(pkgs, "./ref/")
	}
	derived := false
	for round := 0; ; round++ {
		if left, _ := filepath.Glob(filepath.Join(src, "*.go")); len(left) == 0 {
			// every program of the shard was dropped as not type-correct
			lap("native_build")
			return m, nil
		}
		_, stderr, code := run(work, 5*time.Minute, "go", append([]string{"build", "-gcflags=-e"}, pkgs...)...)
		if code == 0 {
			break
		}
		bad, unmapped := buildErrors(work, stderr)
		if len(bad) == 0 || round > 8 {
			return nil, fmt.Errorf("native build of generated sources failed (not attributable to a program):\n%s\n%v", tail(stderr, 1500), unmapped)
		}
		set := map[string]bool{}
		for id, msg := range bad {
			m.Discarded[id] = msg
			set[id] = true
		}
		for _, d := range []string{src, ref} {
			files, _ := filepath.Glob(filepath.Join(d, "*.go"))
			for _, f := range files {
				cutProgs(f, set)
			}
		}
	}
	if s.DeriveRef && !s.NoRef {
		if err := deriveref.Dir(work, src, ref, "ref", goEnv); err != nil {
			return nil, err
		}
		if _, stderr, code := run(work, 5*time.Minute, "go", "build", "-gcflags=-e", "./ref/"); code != 0 {
			return nil, fmt.Errorf("derived reference package does not build:\n%s", tail(stderr, 2000))
		}
	}
	_ = derived
	lap("native_build")

	// 2. go-co through the verif hook: unoptimised stage kept, per-file panics isolated.
	hookOut := filepath.Join(work, "out_hook")
	realDone := false
	if s.NoTmp {
		if _, _, code := run(work, 10*time.Minute, drvPath(), "real", src, out); code == 0 {
			realDone = true
		} else {
			os.RemoveAll(out)
			os.RemoveAll(out + "_tmp")
		}
	}
	var stdout, stderr string
	var code int
	if !realDone {
		stdout, stderr, code = run(work, 10*time.Minute, drvPath(), "hook", src, hookOut, tmp)
	}
	if code != 0 {
		m.Fatal = "compiler failed outside any file: " + PanicSig(firstPanicLine(stderr), stderr)
		if code == 124 {
			m.Fatal = "compiler did not terminate within 10 minutes"
		}
	}
	evs := parseHook(stdout)
	if !realDone && len(evs) > 0 && m.Fatal == "" {
		// split the failing files into one file per program and try again
		failing := map[string]bool{}
		for _, e := range evs {
			failing[srcFileOf(e.File, work)] = true
		}
		single := map[string]string{} // file -> program id
		for f := range failing {
			b, err := os.ReadFile(f)
			if err != nil {
				continue
			}
			lines := strings.Split(string(b), "\n")
			rs := declRanges(lines)
			first := len(lines)
			for _, rr := range rs {
				for _, r := range rr {
					if r[0] < first {
						first = r[0]
					}
				}
			}
			header := strings.Join(lines[:first], "\n")
			for id, rr := range rs {
				var sb strings.Builder
				sb.WriteString(header + "\n")
				sort.Slice(rr, func(i, j int) bool { return rr[i][0] < rr[j][0] })
				for _, r := range rr {
					sb.WriteString(strings.Join(lines[r[0]:r[1]], "\n") + "\n")
				}
				name := filepath.Join(src, "s_"+id+".go")
				os.WriteFile(name, []byte(sb.String()), 0o644)
				single[name] = id
			}
			os.Remove(f)
		}
		os.RemoveAll(hookOut)
		os.RemoveAll(tmp)
		stdout, stderr, code = run(work, 10*time.Minute, drvPath(), "hook", src, hookOut, tmp)
		if code != 0 {
			m.Fatal = "compiler failed outside any file (second pass): " + PanicSig(firstPanicLine(stderr), stderr)
		}
		again := false
		for _, e := range parseHook(stdout) {
			f := srcFileOf(e.File, work)
			id, ok := single[f]
			if !ok {
				// a file that was fine in the first pass fails now: give up on isolation
				m.Fatal = "compile panic not attributable to one program: " + PanicSig(e.Message, e.Stack)
				continue
			}
			if _, dup := m.Rejected[id]; !dup {
				m.Rejected[id] = Reject{Stage: e.Stage, Message: trunc(e.Message, 400), Sig: PanicSig(e.Message, e.Stack)}
			}
			os.Remove(f)
			again = true
		}
		if again && m.Fatal == "" {
			os.RemoveAll(hookOut)
			os.RemoveAll(tmp)
			stdout, _, code = run(work, 10*time.Minute, drvPath(), "hook", src, hookOut, tmp)
			if code != 0 || len(parseHook(stdout)) > 0 {
				m.Fatal = "compiler still fails after removing the rejected programs"
			}
		}
	}
	lap("goco_hook")

	// 3. the real, unmodified Compile on what is left; its output is what gets executed.
	if m.Fatal == "" && !realDone {
		_, stderr, code = run(work, 10*time.Minute, drvPath(), "real", src, out)
		if code != 0 {
			m.Fatal = "rewriter.Compile fails where the hook entry point succeeded: " + PanicSig(firstPanicLine(stderr), stderr)
			if code == 124 {
				m.Fatal = "rewriter.Compile did not terminate within 10 minutes"
			}
		} else {
			m.HookDiffers = diffDirs(out, hookOut)
			left, _ := filepath.Glob(filepath.Join(out, "_co_tmp*"))
			if _, err := os.Stat(out + "_tmp"); err == nil || len(left) > 0 {
				m.HookDiffers = append(m.HookDiffers, "intermediate directory left behind by Compile")
			}
		}
	}
	os.RemoveAll(hookOut)
	if s.NoTmp {
		os.RemoveAll(tmp)
	}
	if m.Fatal == "" {
		// go-co writes only the files that use its API; plain files of the package are copied as they are
		srcFiles, _ := filepath.Glob(filepath.Join(src, "*.go"))
		for _, f := range srcFiles {
			b, _ := os.ReadFile(f)
			if strings.Contains(string(b), "\"github.com/goghcrow/go-co\"") {
				continue
			}
			for _, d := range []string{out, tmp} {
				if _, err := os.Stat(d); err == nil {
					if _, err := os.Stat(filepath.Join(d, filepath.Base(f))); err != nil {
						os.WriteFile(filepath.Join(d, filepath.Base(f)), b, 0o644)
					}
				}
			}
		}
	}
	lap("goco_real")
	if m.Fatal != "" {
		// every program of the shard is rejected with this signature
		for _, p := range s.Progs {
			if _, d := m.Discarded[p.ID]; d {
				continue
			}
			if _, r := m.Rejected[p.ID]; !r {
				m.Rejected[p.ID] = Reject{Stage: "batch", Message: m.Fatal, Sig: m.Fatal}
			}
		}
		return m, nil
	}

	// 4. go build of the generated package (and of the unoptimised one)
	for _, side := range []struct {
		dir, pkg string
		rec      map[string]string
	}{{out, "./out/", m.Unbuildable}, {tmp, "./tmp/", m.TmpUnbuild}} {
		for round := 0; ; round++ {
			files, _ := filepath.Glob(filepath.Join(side.dir, "*.go"))
			if len(files) == 0 {
				break
			}
			_, stderr, code := run(work, 5*time.Minute, "go", "build", "-gcflags=-e", side.pkg)
			if code == 0 {
				break
			}
			if side.pkg == "./tmp/" && dropUnusedImports(work, stderr) {
				// the unoptimised stage still carries the API import that the optimise stage
				// cleans up; removing an import the compiler reports as unused changes nothing else
				continue
			}
			bad, unmapped := buildErrors(work, stderr)
			if len(bad) == 0 && round <= 10 && allInDir(unmapped, filepath.Base(side.dir)+"/") {
				// the errors sit in a shared (helper) file of the generated package: the sources built
				// natively, so the compiler's output is at fault, for every program that needs the file
				msg := "shared file: " + firstOf(unmapped)
				for _, p := range s.Progs {
					if _, d := m.Discarded[p.ID]; d {
						continue
					}
					if _, r := m.Rejected[p.ID]; r {
						continue
					}
					if _, u := side.rec[p.ID]; !u {
						side.rec[p.ID] = msg
					}
				}
				for _, f := range files {
					os.Remove(f)
				}
				break
			}
			if len(bad) == 0 || round > 10 {
				return nil, fmt.Errorf("go build of %s failed and the errors cannot be attributed to programs:\n%s\n%v", side.pkg, tail(stderr, 1500), unmapped)
			}
			set := map[string]bool{}
			for id, msg := range bad {
				side.rec[id] = msg
				set[id] = true
			}
			for _, f := range files {
				cutProgs(f, set)
			}
		}
	}
	lap("go_build_out")

	// 5. link the worker
	excluded := func(id string) bool {
		_, a := m.Discarded[id]
		_, b := m.Rejected[id]
		_, c := m.Unbuildable[id]
		return a || b || c
	}
	var sb strings.Builder
	if s.GoDebug != "" {
		sb.WriteString("//go:debug " + s.GoDebug + "\n")
	}
	sb.WriteString("package main\n\nimport (\n\t\"verif/harness\"\n\t\"verif/rt\"\n\tout \"w/out\"\n")
	if !s.NoRef {
		sb.WriteString("\tref \"w/ref\"\n")
	}
	hasTmp := false
	if files, _ := filepath.Glob(filepath.Join(tmp, "*.go")); len(files) > 0 {
		hasTmp = true
		sb.WriteString("\ttmp \"w/tmp\"\n")
	}
	sb.WriteString(")\n\nvar _ = rt.New\n\nfunc main() {\n\tharness.Run([]harness.Prog{\n")
	for _, p := range s.Progs {
		if excluded(p.ID) {
			continue
		}
		m.Registry = append(m.Registry, p.ID)
		refPkg := "ref"
		if s.NoRef {
			refPkg = "out"
		}
		_, tmpBad := m.TmpUnbuild[p.ID]
		if p.Proc {
			fmt.Fprintf(&sb, "\t\t{ID: %q, POut: out.%s, PRef: %s.%s", p.ID, p.ID, refPkg, p.ID)
			if hasTmp && !tmpBad {
				fmt.Fprintf(&sb, ", PTmp: tmp.%s", p.ID)
			}
		} else {
			fmt.Fprintf(&sb, "\t\t{ID: %q, Out: func(c *rt.Ctx) harness.It { return out.%s(c) }, Ref: func(c *rt.Ctx) harness.It { return %s.%s(c) }", p.ID, p.ID, refPkg, p.ID)
			if hasTmp && !tmpBad {
				fmt.Fprintf(&sb, ", Tmp: func(c *rt.Ctx) harness.It { return tmp.%s(c) }", p.ID)
			}
		}
		sb.WriteString("},\n")
	}
	sb.WriteString("\t})\n}\n")
	if len(m.Registry) > 0 {
		os.MkdirAll(filepath.Join(work, "main"), 0o755)
		os.WriteFile(filepath.Join(work, "main", "main.go"), []byte(sb.String()), 0o644)
		linkArgs := []string{"build", "-ldflags=-s -w", "-o", "worker", "./main"}
		if s.Race {
			linkArgs = []string{"build", "-race", "-o", "worker", "./main"}
		}
		_, stderr, code = run(work, 10*time.Minute, "go", linkArgs...)
		if code != 0 {
			return nil, fmt.Errorf("linking the worker failed:\n%s", tail(stderr, 2000))
		}
	}
	lap("link")
	return m, nil
}

func srcFileOf(file, work string) string {
	// hook reports absolute file names inside <work>/src or <work>/tmp
	base := filepath.Base(file)
	return filepath.Join(work, "src", base)
}

func firstPanicLine(stderr string) string {
	for _, l := range strings.Split(stderr, "\n") {
		if strings.HasPrefix(l, "panic: ") {
			return strings.TrimSuffix(strings.TrimPrefix(l, "panic: "), " [recovered]")
		}
	}
	return tail(stderr, 200)
}

func tail(s string, n int) string {
	if len(s) > n {
		return s[len(s)-n:]
	}
	return s
}

func trunc(s string, n int) string {
	if len(s) > n {
		return s[:n]
	}
	return s
}

func diffDirs(a, b string) []string {
	var out []string
	fa, _ := filepath.Glob(filepath.Join(a, "*.go"))
	fb, _ := filepath.Glob(filepath.Join(b, "*.go"))
	names := map[string]bool{}
	for _, f := range append(fa, fb...) {
		names[filepath.Base(f)] = true
	}
	for n := range names {
		x, e1 := os.ReadFile(filepath.Join(a, n))
		y, e2 := os.ReadFile(filepath.Join(b, n))
		if e1 != nil || e2 != nil || !bytes.Equal(x, y) {
			out = append(out, n)
		}
	}
	sort.Strings(out)
	return out
}

// ---- running the worker

// ResultCacheHits counts the shards whose exploration results were reused from an identical earlier run.
var ResultCacheHits atomic.Int64

// TransientIncidents counts worker stalls / crashes that did not reproduce in two isolated runs.
var TransientIncidents atomic.Int64

type RunOpts struct {
	D, F, H, Cap int
	Inject       bool
	Timeout      time.Duration
}

func (o RunOpts) args() []string {
	return []string{"-D", strconv.Itoa(o.D), "-F", strconv.Itoa(o.F), "-H", strconv.Itoa(o.H), "-cap", strconv.Itoa(o.Cap),
		fmt.Sprintf("-inject=%v", o.Inject)}
}

// RunWorker explores every registered program of a built shard. A crash or hang of the worker is
// attributed to the program whose BEGIN line came last, confirmed by re-running that program alone
// twice, recorded as that program's Fatal result, and the run resumes after it.
func RunWorker(b *Built, o RunOpts) ([]harness.Result, error) {
	if len(b.Meta.Registry) == 0 {
		return nil, nil
	}
	worker := filepath.Join(b.Dir, "worker")
	var results []harness.Result
	// The worker is a deterministic function of its binary (which lives in a directory named by the
	// hash of /repo's sources, the harness and the shard's programs) and of these options: the five
	// checks that project the same exploration differently reuse its output instead of re-running
	// it. Anything time-dependent (watchdog verdicts) is never stored. VERIF_NO_RESULT_CACHE=1 bypasses.
	h := sha256.Sum256([]byte(strings.Join(o.args(), " ")))
	cacheFile := filepath.Join(b.Dir, fmt.Sprintf("results-%x.json", h[:8]))
	if os.Getenv("VERIF_NO_RESULT_CACHE") == "" {
		if data, err := os.ReadFile(cacheFile); err == nil && json.Unmarshal(data, &results) == nil && len(results) > 0 {
			ResultCacheHits.Add(1)
			return results, nil
		}
		results = nil
	}
	complete := false
	defer func() {
		if !complete {
			return
		}
		for _, r := range results {
			if r.Fatal != "" {
				return
			}
		}
		if len(results) > 0 {
			if data, err := json.Marshal(results); err == nil {
				os.WriteFile(cacheFile+".tmp", data, 0o644)
				os.Rename(cacheFile+".tmp", cacheFile)
			}
		}
	}()
	from := 0
	for from < len(b.Meta.Registry) {
		args := append(o.args(), "-from", strconv.Itoa(from))
		// the worker has its own progress watchdog (exit 3 on a hung execution); this outer limit is
		// only a last resort against a wedged process
		stdout, stderr, code := run(b.Dir, 6*time.Hour, worker, args...)
		last := -1
		lastID := ""
		sc := bufio.NewScanner(strings.NewReader(stdout))
		sc.Buffer(make([]byte, 1<<20), 1<<26)
		for sc.Scan() {
			l := sc.Text()
			switch {
			case strings.HasPrefix(l, "BEGIN "):
				fs := strings.Fields(l)
				last, _ = strconv.Atoi(fs[1])
				lastID = fs[2]
			case strings.HasPrefix(l, "{"):
				var r harness.Result
				if err := json.Unmarshal([]byte(l), &r); err != nil {
					return nil, fmt.Errorf("worker output not parseable: %v", err)
				}
				results = append(results, r)
				if r.ID == lastID {
					last = -1
				}
			}
		}
		if code == 0 {
			break
		}
		if last < 0 {
			return nil, fmt.Errorf("worker of %s failed (exit %d) outside any program:\n%s", b.Meta.Name, code, tail(stderr, 1500))
		}
		kind := "crash"
		if code == 3 || code == 124 {
			kind = "hang"
		}
		detail := kind
		if kind == "crash" {
			detail = crashSig(stderr)
		}
		// confirm twice in isolation
		confirmed := true
		var clean []harness.Result // results of isolated runs that completed normally
		for k := 0; k < 2; k++ {
			o2, e2, c2 := run(b.Dir, 10*time.Minute, worker, append(o.args(), "-only", lastID)...)
			k2 := "crash"
			if c2 == 3 || c2 == 124 {
				k2 = "hang"
			}
			if c2 == 0 || k2 != kind || (kind == "crash" && crashSig(e2) != detail) {
				confirmed = false
			}
			if c2 == 0 {
				for _, l := range strings.Split(o2, "\n") {
					if strings.HasPrefix(l, "{") {
						var r harness.Result
						if json.Unmarshal([]byte(l), &r) == nil && r.ID == lastID {
							clean = append(clean, r)
						}
					}
				}
			}
		}
		if !confirmed && len(clean) == 2 {
			// Both isolated runs completed: the worker was stalled or killed from outside (a frozen or
			// overloaded machine trips the watchdog, which measures wall-clock time without progress).
			// That says nothing about the program: its isolated result stands, the incident is counted.
			TransientIncidents.Add(1)
			results = append(results, clean[0])
			from = last + 1
			continue
		}
		if !confirmed {
			detail = "not reproducible: " + detail
			kind = "nondet"
		}
		results = append(results, harness.Result{ID: lastID, Fatal: kind + ": " + detail})
		from = last + 1
	}
	complete = true
	return results, nil
}

func crashSig(stderr string) string {
	for _, l := range strings.Split(stderr, "\n") {
		if strings.HasPrefix(l, "fatal error: ") || strings.HasPrefix(l, "panic: ") || strings.HasPrefix(l, "runtime: goroutine stack exceeds") {
			return trunc(l, 120)
		}
	}
	return trunc(strings.TrimSpace(tail(stderr, 120)), 120)
}

// Replay runs one program of a built shard on one answer vector and returns both logs as text.
func Replay(b *Built, o RunOpts, id string, ans []int, panicAt int) string {
	args := append(o.args(), "-only", id, "-ans", core.JoinInts(ans), "-panicat", strconv.Itoa(panicAt), "x")
	stdout, stderr, _ := run(b.Dir, 2*time.Minute, filepath.Join(b.Dir, "worker"), args...)
	return stdout + stderr
}

// ProgramText returns the declarations of one program from a built shard's kept sources
// (sub = src | ref | out | tmp).
func ProgramText(shardDir, sub, id string) string {
	files, _ := filepath.Glob(filepath.Join(shardDir, sub, "*.go"))
	for _, f := range files {
		b, err := os.ReadFile(f)
		if err != nil {
			continue
		}
		lines := strings.Split(string(b), "\n")
		if rr, ok := declRanges(lines)[id]; ok {
			var sb strings.Builder
			for _, r := range rr {
				sb.WriteString(strings.Join(lines[r[0]:r[1]], "\n"))
				sb.WriteString("\n")
			}
			return sb.String()
		}
	}
	return ""
}

var unusedRe = regexp.MustCompile(`(?m)^(\S+\.go):(\d+):\d+: .*imported (as \S+ )?and not used`)

// dropUnusedImports deletes the import lines the compiler reports as unused.
func dropUnusedImports(work, stderr string) bool {
	byFile := map[string][]int{}
	for _, m := range unusedRe.FindAllStringSubmatch(stderr, -1) {
		ln, _ := strconv.Atoi(m[2])
		f := m[1]
		if !filepath.IsAbs(f) {
			f = filepath.Join(work, f)
		}
		byFile[f] = append(byFile[f], ln-1)
	}
	for f, lns := range byFile {
		b, err := os.ReadFile(f)
		if err != nil {
			continue
		}
		lines := strings.Split(string(b), "\n")
		for _, ln := range lns {
			if ln < len(lines) {
				lines[ln] = ""
			}
		}
		os.WriteFile(f, []byte(strings.Join(lines, "\n")), 0o644)
	}
	return len(byFile) > 0
}

func sortedKeys(m map[string]string) []string {
	ks := make([]string, 0, len(m))
	for k := range m {
		ks = append(ks, k)
	}
	sort.Strings(ks)
	return ks
}

// RunRaw runs the worker of a built shard with the given arguments.
func RunRaw(b *Built, timeout time.Duration, args ...string) (stdout, stderr string, code int) {
	return run(b.Dir, timeout, filepath.Join(b.Dir, "worker"), args...)
}
