package gen

import "fmt"

// The control-flow families (DESIGN.md 1.1): CF-full, CF-core, CF-lite.

func atom(name string, print func(p *Printer, s *Stmt)) *Kind {
	return &Kind{Name: name, Print: print}
}

func yieldStmt(p *Printer) string { return p.Y("c.V(" + itoa(p.ID()) + ")") }

func itoa(i int) string {
	if i == 0 {
		return "0"
	}
	neg := i < 0
	if neg {
		i = -i
	}
	var b [20]byte
	n := len(b)
	for i > 0 {
		n--
		b[n] = byte('0' + i%10)
		i /= 10
	}
	if neg {
		n--
		b[n] = '-'
	}
	return string(b[n:])
}

var cfKinds = []*Kind{
	{Name: "Y", Yields: true, EventFirst: true, Print: func(p *Printer, s *Stmt) { p.W("%s", yieldStmt(p)) }},
	{Name: "E", EventFirst: true, Print: func(p *Printer, s *Stmt) { p.W("c.E(%d)", p.ID()) }},
	{Name: "Br", Jump: true, NeedB: true, EventFirst: true, Print: func(p *Printer, s *Stmt) { p.W("break") }},
	{Name: "Co", Jump: true, NeedL: true, Print: func(p *Printer, s *Stmt) { p.W("continue") }},
	{Name: "Rt", Jump: true, EventFirst: true, Print: func(p *Printer, s *Stmt) { p.W("%s", p.Ret()) }},

	// return with a non-nil operand: go-co evaluates the operand, ignores its value and ends the generator
	{Name: "RtCall", Jump: true, EventFirst: true, Print: func(p *Printer, s *Stmt) {
		p.RetExpr(fmt.Sprintf("func() %s { c.E(%d); return nil }()", p.IterT("int"), p.ID()))
	}},
	{Name: "RtIdx", Jump: true, EventFirst: true, Print: func(p *Printer, s *Stmt) {
		p.W("k := c.I(%d) - 1", p.ID())
		p.W("its := []%s{nil}", p.IterT("int"))
		p.W("_, _ = k, its")
		p.RetExpr("its[k]")
	}},
	{Name: "RtSel", Jump: true, EventFirst: true, Print: func(p *Printer, s *Stmt) {
		p.W("var np *struct{ it %s }", p.IterT("int"))
		p.W("if c.B(%d) {", p.ID())
		p.W("\tnp = &struct{ it %s }{}", p.IterT("int"))
		p.W("}")
		p.W("_ = np")
		p.RetExpr("np.it")
	}},
	{Name: "If", Arity: 1, EventFirst: true, Print: func(p *Printer, s *Stmt) {
		p.W("if c.B(%d) {", p.ID())
		p.Blk(s.Ch[0])
		p.W("}")
	}},
	{Name: "IfElse", Arity: 2, EventFirst: true, Print: func(p *Printer, s *Stmt) {
		p.W("if c.B(%d) {", p.ID())
		p.Blk(s.Ch[0])
		p.W("} else {")
		p.Blk(s.Ch[1])
		p.W("}")
	}},
	{Name: "IfElif", Arity: 2, EventFirst: true, Print: func(p *Printer, s *Stmt) {
		p.W("if c.B(%d) {", p.ID())
		p.Blk(s.Ch[0])
		p.W("} else if c.B(%d) {", p.ID())
		p.Blk(s.Ch[1])
		p.W("}")
	}},
	{Name: "IfElifElse", Arity: 3, EventFirst: true, Print: func(p *Printer, s *Stmt) {
		p.W("if c.B(%d) {", p.ID())
		p.Blk(s.Ch[0])
		p.W("} else if c.B(%d) {", p.ID())
		p.Blk(s.Ch[1])
		p.W("} else {")
		p.Blk(s.Ch[2])
		p.W("}")
	}},
	{Name: "IfInit", Arity: 1, EventFirst: true, Print: func(p *Printer, s *Stmt) {
		p.W("if b := c.B(%d); b {", p.ID())
		p.Blk(s.Ch[0])
		p.W("}")
	}},
	{Name: "Sw1", Arity: 1, Switch: true, EventFirst: true, Print: func(p *Printer, s *Stmt) {
		p.W("switch c.I(%d) {", p.ID())
		p.W("case 0:")
		p.Blk(s.Ch[0])
		p.W("}")
	}},
	{Name: "Sw2", Arity: 2, Switch: true, EventFirst: true, Print: func(p *Printer, s *Stmt) {
		p.W("switch c.I(%d) {", p.ID())
		p.W("case 0:")
		p.Blk(s.Ch[0])
		p.W("default:")
		p.Blk(s.Ch[1])
		p.W("}")
	}},
	{Name: "Sw3", Arity: 3, Switch: true, EventFirst: true, Print: func(p *Printer, s *Stmt) {
		p.W("switch c.I(%d) {", p.ID())
		p.W("case 0:")
		p.Blk(s.Ch[0])
		p.W("case 1, 3:")
		p.Blk(s.Ch[1])
		p.W("default:")
		p.Blk(s.Ch[2])
		p.W("}")
	}},
	{Name: "SwNoTag", Arity: 2, Switch: true, EventFirst: true, Print: func(p *Printer, s *Stmt) {
		p.W("switch {")
		p.W("case c.B(%d):", p.ID())
		p.Blk(s.Ch[0])
		p.W("default:")
		p.Blk(s.Ch[1])
		p.W("}")
	}},
	{Name: "SwInitY", Arity: 1, Switch: true, Yields: true, EventFirst: true, Print: func(p *Printer, s *Stmt) {
		y := yieldStmt(p)
		p.W("switch %s; c.I(%d) {", y, p.ID())
		p.W("case 0:")
		p.Blk(s.Ch[0])
		p.W("}")
	}},
	{Name: "SwInitE", Arity: 1, Switch: true, EventFirst: true, Print: func(p *Printer, s *Stmt) {
		a := p.ID()
		p.W("switch c.E(%d); c.I(%d) {", a, p.ID())
		p.W("case 0:")
		p.Blk(s.Ch[0])
		p.W("}")
	}},
	{Name: "TySw", Arity: 2, Switch: true, EventFirst: true, Print: func(p *Printer, s *Stmt) {
		p.W("switch c.Any(%d).(type) {", p.ID())
		p.W("case int:")
		p.Blk(s.Ch[0])
		p.W("default:")
		p.Blk(s.Ch[1])
		p.W("}")
	}},
	{Name: "TySwBind", Arity: 2, Switch: true, EventFirst: true, Print: func(p *Printer, s *Stmt) {
		a := p.ID()
		p.W("switch t := c.Any(%d).(type) {", a)
		p.W("case int:")
		p.In()
		p.W("c.X(%d, t+1)", p.ID())
		p.Out()
		p.Blk(s.Ch[0])
		p.W("case string, nil:")
		p.In()
		p.W("c.X(%d, t)", p.ID())
		p.Out()
		p.Blk(s.Ch[1])
		p.W("}")
	}},
	{Name: "ForInf", Arity: 1, Loop: true, Infinite: true, Print: func(p *Printer, s *Stmt) {
		p.W("for {")
		p.Blk(s.Ch[0])
		p.W("}")
	}},
	{Name: "While", Arity: 1, Loop: true, EventFirst: true, Print: func(p *Printer, s *Stmt) {
		p.W("for c.B(%d) {", p.ID())
		p.Blk(s.Ch[0])
		p.W("}")
	}},
	{Name: "For3", Arity: 1, Loop: true, Print: func(p *Printer, s *Stmt) {
		p.W("for i := 0; i < 2; i++ {")
		p.Blk(s.Ch[0])
		p.W("}")
	}},
	{Name: "ForNoCond", Arity: 1, Loop: true, Infinite: true, Print: func(p *Printer, s *Stmt) {
		p.W("for i := 0; ; i++ {")
		p.Blk(s.Ch[0])
		p.W("}")
	}},
	{Name: "ForPostY", Arity: 1, Loop: true, Yields: true, EventFirst: true, Print: func(p *Printer, s *Stmt) {
		a := p.ID()
		p.W("for ; c.B(%d); %s {", a, yieldStmt(p))
		p.Blk(s.Ch[0])
		p.W("}")
	}},
	{Name: "ForInitY", Arity: 1, Loop: true, Yields: true, EventFirst: true, Print: func(p *Printer, s *Stmt) {
		y := yieldStmt(p)
		p.W("for %s; c.B(%d); {", y, p.ID())
		p.Blk(s.Ch[0])
		p.W("}")
	}},
	{Name: "ForPostE", Arity: 1, Loop: true, EventFirst: true, Print: func(p *Printer, s *Stmt) {
		a := p.ID()
		p.W("for ; c.B(%d); c.E(%d) {", a, p.ID())
		p.Blk(s.Ch[0])
		p.W("}")
	}},
	{Name: "ForInitE", Arity: 1, Loop: true, EventFirst: true, Print: func(p *Printer, s *Stmt) {
		a := p.ID()
		p.W("for c.E(%d); c.B(%d); {", a, p.ID())
		p.Blk(s.Ch[0])
		p.W("}")
	}},
	{Name: "Block", Arity: 1, Print: func(p *Printer, s *Stmt) {
		p.W("{")
		p.Blk(s.Ch[0])
		p.W("}")
	}},
	// a plain (non-generator) closure called in place; its body may only contain effects
	{Name: "Clo", EventFirst: true, Print: func(p *Printer, s *Stmt) {
		p.W("func() { c.E(%d) }()", p.ID())
	}},
	// delegation to an immediately called generator literal
	{Name: "YFLit", Arity: 1, Func: true, Yields: true, EventFirst: false, Print: func(p *Printer, s *Stmt) {
		p.W("%s", p.YFopen())
		p.In()
		p.GenOpen("int")
		for _, st := range s.Ch[0] {
			p.Stmt(st)
		}
		if !endsInReturn(s.Ch[0]) && !p.F.endsInInfiniteLoop(s.Ch[0]) {
			p.W("%s", p.Ret())
		}
		p.GenClose()
		p.Out()
		p.W("}())")
	}},
}

// YFopen opens `YieldFrom(func() Iter[int] {`.
func (p *Printer) YFopen() string {
	if p.Ref {
		return "y.YieldFrom(func() refco.Iter[int] {"
	}
	return "YieldFrom(func() Iter[int] {"
}

var CFAll = &Family{Name: "CF-all", Kinds: cfKinds}

// CFFull: the full statement alphabet.
var CFFull = CFAll.Sub("CF-full",
	"Y", "E", "Br", "Co", "Rt",
	"If", "IfElse", "IfElif", "IfElifElse", "IfInit",
	"Sw1", "Sw2", "Sw3", "SwNoTag", "SwInitY", "SwInitE", "TySw", "TySwBind",
	"ForInf", "While", "For3", "ForNoCond", "ForPostY", "ForInitY", "ForPostE", "ForInitE",
	"Block", "Clo", "YFLit")

// CFCore: one size deeper.
var CFCore = CFAll.Sub("CF-core",
	"Y", "E", "Br", "Co", "Rt",
	"If", "IfElse", "Sw2", "SwNoTag", "ForInf", "While", "For3", "ForPostY", "Block")

// CFLite: five compounds, deepest.
var CFLite = CFAll.Sub("CF-lite",
	"Y", "E", "Br", "Co", "Rt",
	"IfElse", "Sw2", "While", "For3", "Block")

// Programs enumerates the generator programs of f with size in [lo,hi]: at least one yield, no
// silent spin. A yield inside a YFLit counts.
func (f *Family) Programs(lo, hi int) []List {
	var out []List
	for n := lo; n <= hi; n++ {
		for _, l := range f.Enumerate(n) {
			if !f.DirectYield(l) || !f.validFuncs(l) || f.Spins(l) {
				continue
			}
			out = append(out, l)
		}
	}
	return out
}

// DirectYield: the function whose body is l yields itself (nested function bodies do not count,
// a delegation statement does).
func (f *Family) DirectYield(l List) bool {
	for _, s := range l {
		k := f.Kind(s.K)
		if k.Yields {
			return true
		}
		if k.Func {
			continue
		}
		for _, ch := range s.Ch {
			if f.DirectYield(ch) {
				return true
			}
		}
	}
	return false
}

// validFuncs: every nested generator literal yields directly (otherwise it is not a generator in
// the source either and the R printer would have to print it differently).
func (f *Family) validFuncs(l List) bool {
	for _, s := range l {
		k := f.Kind(s.K)
		for _, ch := range s.Ch {
			if k.Func && !f.DirectYield(ch) {
				return false
			}
			if !f.validFuncs(ch) {
				return false
			}
		}
	}
	return true
}

// WellFormed: l is a member of the family's program space — jumps only in last position and in a
// legal context, a direct yield, nested generator literals yield, no silent spin.
func (f *Family) WellFormed(l List) bool {
	return f.wf(l, ctx{}) && f.DirectYield(l) && f.validFuncs(l) && !f.Spins(l)
}

func (f *Family) wf(l List, c ctx) bool {
	for i, s := range l {
		k := f.byName(s.K)
		if k == nil || len(s.Ch) != k.Arity {
			return false
		}
		if k.Jump && i != len(l)-1 {
			return false
		}
		if k.NeedL && !c.loop || k.NeedB && !(c.loop || c.sw) {
			return false
		}
		cc := c
		switch {
		case k.Func:
			cc = ctx{}
		case k.Loop:
			cc = ctx{loop: true}
		case k.Switch:
			cc.sw = true
		}
		for _, ch := range s.Ch {
			if !f.wf(ch, cc) {
				return false
			}
		}
	}
	return true
}

func (f *Family) byName(n string) *Kind {
	f.Kind("Y0") // ensure the index exists; unknown names return nil below
	return f.byN[n]
}

// ---- YF family (C05): delegation atoms over helper generators declared in corpus/yfhelpers.go.txt

func yfAtom(name, expr string) *Kind {
	return &Kind{Name: name, Yields: true, EventFirst: true, Print: func(p *Printer, s *Stmt) {
		p.W("%s", p.YF(fmt.Sprintf("rt.S(c, %d, %s)", p.ID(), expr)))
	}}
}

var yfKinds = []*Kind{
	yfAtom("YF0", "G0(c)"),
	yfAtom("YF2", "G2(c)"),
	yfAtom("YFInf", "GInf(c)"),
	yfAtom("YFRec", "Rec(c, 2)"),
	yfAtom("YFCh", "Gc(c)"),
	yfAtom("YFTree", "Walk(c, tree3)"),
	// hand-advanced delegate: one element consumed before delegation
	{Name: "YFAdv", Yields: true, EventFirst: true, Print: func(p *Printer, s *Stmt) {
		p.W("{")
		p.In()
		p.W("it := G3(c)")
		p.W("c.X(%d, it.MoveNext())", p.ID())
		p.W("c.X(%d, it.Current())", p.ID())
		p.W("%s", p.YF("it"))
		p.Out()
		p.W("}")
	}},
	// already exhausted delegate
	{Name: "YFDone", Yields: true, EventFirst: true, Print: func(p *Printer, s *Stmt) {
		p.W("{")
		p.In()
		p.W("it := G2(c)")
		p.W("for it.MoveNext() {")
		p.W("}")
		p.W("c.E(%d)", p.ID())
		p.W("%s", p.YF("it"))
		p.Out()
		p.W("}")
	}},
	// the same iterator delegated twice: the second delegation finds it exhausted
	{Name: "YFTwice", Yields: true, EventFirst: true, Print: func(p *Printer, s *Stmt) {
		p.W("{")
		p.In()
		p.W("it := G2(c)")
		p.W("%s", p.YF("it"))
		p.W("c.E(%d)", p.ID())
		p.W("%s", p.YF("it"))
		p.Out()
		p.W("}")
	}},
	// the delegate re-points the field / element it was delegated from while it is being drained
	{Name: "YFSlot", Yields: true, EventFirst: false, Print: func(p *Printer, s *Stmt) {
		p.W("{")
		p.In()
		p.W("h := &Slot{}")
		p.W("h.it = Gswap(c, h)")
		p.W("%s", p.YF("h.it"))
		p.W("c.E(%d)", p.ID())
		p.Out()
		p.W("}")
	}},
	{Name: "YFElem", Yields: true, EventFirst: false, Print: func(p *Printer, s *Stmt) {
		p.W("{")
		p.In()
		p.W("h := &Slot{all: make([]%s, 1)}", p.IterT("int"))
		p.W("h.all[0] = Gswap(c, h)")
		p.W("%s", p.YF("h.all[0]"))
		p.W("c.E(%d)", p.ID())
		p.Out()
		p.W("}")
	}},
	{Name: "ForPostYF", Arity: 1, Loop: true, Yields: true, EventFirst: true, Print: func(p *Printer, s *Stmt) {
		a := p.ID()
		p.W("for ; c.B(%d); %s {", a, p.YF(fmt.Sprintf("rt.S(c, %d, G2(c))", p.ID())))
		p.Blk(s.Ch[0])
		p.W("}")
	}},
	{Name: "ForInitYF", Arity: 1, Loop: true, Yields: true, EventFirst: true, Print: func(p *Printer, s *Stmt) {
		a := p.ID()
		p.W("for %s; c.B(%d); {", p.YF(fmt.Sprintf("rt.S(c, %d, G2(c))", a)), p.ID())
		p.Blk(s.Ch[0])
		p.W("}")
	}},
	{Name: "SwInitYF", Arity: 1, Switch: true, Yields: true, EventFirst: true, Print: func(p *Printer, s *Stmt) {
		a := p.ID()
		p.W("switch %s; c.I(%d) {", p.YF(fmt.Sprintf("rt.S(c, %d, G2(c))", a)), p.ID())
		p.W("case 0:")
		p.Blk(s.Ch[0])
		p.W("}")
	}},
}

func init() {
	CFAll.Kinds = append(CFAll.Kinds, yfKinds...)
	CFAll.byN = nil
	YF = CFAll.Sub("YF",
		"Y", "E", "Br", "Co", "Rt",
		"YF0", "YF2", "YFInf", "YFRec", "YFCh", "YFTree", "YFAdv", "YFDone", "YFTwice", "YFSlot", "YFElem",
		"If", "IfElse", "Sw2", "SwNoTag", "ForInf", "While", "For3", "ForPostY", "Block",
		"ForPostYF", "ForInitYF", "SwInitYF")
}

// YF: CF-core plus delegation.
var YF *Family

// HasDelegation: the program uses one of the delegation forms.
func HasDelegation(l List) bool {
	for _, s := range l {
		if len(s.K) >= 2 && s.K[:2] == "YF" || s.K == "ForPostYF" || s.K == "ForInitYF" || s.K == "SwInitYF" {
			return true
		}
		for _, ch := range s.Ch {
			if HasDelegation(ch) {
				return true
			}
		}
	}
	return false
}

// ---- INJECT family (C12): one unsupported construct at every statement position

var injectKinds = []*Kind{
	{Name: "XGoto", EventFirst: true, Print: func(p *Printer, s *Stmt) {
		a := p.ID()
		p.W("if c.B(%d) {", a)
		p.W("\tgoto L%d", a)
		p.W("}")
		p.W("c.E(%d)", p.ID())
		p.W("L%d:", a)
		p.W("c.E(%d)", p.ID())
	}},
	{Name: "XGotoY", Yields: true, EventFirst: true, Print: func(p *Printer, s *Stmt) {
		a := p.ID()
		p.W("if c.B(%d) {", a)
		p.W("\tgoto L%d", a)
		p.W("}")
		p.W("%s", yieldStmt(p))
		p.W("L%d:", a)
		p.W("c.E(%d)", p.ID())
	}},
	{Name: "XLblBrk", Arity: 1, Loop: true, EventFirst: true, Print: func(p *Printer, s *Stmt) {
		a := p.ID()
		p.W("L%d:", a)
		p.W("for c.B(%d) {", a)
		p.In()
		p.W("for c.B(%d) {", p.ID())
		p.Blk(s.Ch[0])
		p.W("\tbreak L%d", a)
		p.W("}")
		p.W("c.E(%d)", p.ID())
		p.Out()
		p.W("}")
	}},
	{Name: "XLblCont", Arity: 1, Loop: true, EventFirst: true, Print: func(p *Printer, s *Stmt) {
		a := p.ID()
		p.W("L%d:", a)
		p.W("for c.B(%d) {", a)
		p.In()
		p.W("for c.B(%d) {", p.ID())
		p.Blk(s.Ch[0])
		p.W("\tcontinue L%d", a)
		p.W("}")
		p.W("c.E(%d)", p.ID())
		p.Out()
		p.W("}")
	}},
	{Name: "XSelect", Arity: 1, Switch: true, EventFirst: false, Print: func(p *Printer, s *Stmt) {
		p.W("select {")
		p.W("default:")
		p.Blk(s.Ch[0])
		p.W("}")
	}},
	{Name: "XSelectBrk", EventFirst: true, Print: func(p *Printer, s *Stmt) {
		p.W("select {")
		p.W("default:")
		p.W("\tif c.B(%d) {", p.ID())
		p.W("\t\tbreak")
		p.W("\t}")
		p.W("\tc.E(%d)", p.ID())
		p.W("}")
	}},
	// a yield-free range over a pointer to an array is left as a native loop: break / continue stay native
	{Name: "NRangePtrBrk", EventFirst: false, Print: func(p *Printer, s *Stmt) {
		p.W("for _, v := range &[3]int{%d, %d, %d} {", p.ID(), p.ID(), p.ID())
		p.W("\tif c.B(%d) {", p.ID())
		p.W("\t\tcontinue")
		p.W("\t}")
		p.W("\tif c.B(%d) {", p.ID())
		p.W("\t\tbreak")
		p.W("\t}")
		p.W("\tc.X(%d, v)", p.ID())
		p.W("}")
	}},
	{Name: "XDefer", Print: func(p *Printer, s *Stmt) { p.W("defer c.E(%d)", p.ID()) }},
	{Name: "XDeferIf", EventFirst: true, Print: func(p *Printer, s *Stmt) {
		p.W("if c.B(%d) {", p.ID())
		p.W("\tdefer c.E(%d)", p.ID())
		p.W("}")
	}},
	{Name: "XDeferLoop", EventFirst: true, Print: func(p *Printer, s *Stmt) {
		p.W("for i := 0; i < 2; i++ {")
		p.W("\tdefer c.X(%d, i)", p.ID())
		p.W("}")
	}},
	{Name: "XFall", Arity: 2, Switch: true, EventFirst: true, Print: func(p *Printer, s *Stmt) {
		p.W("switch c.I(%d) {", p.ID())
		p.W("case 0:")
		p.Blk(s.Ch[0])
		p.W("\tfallthrough")
		p.W("default:")
		p.Blk(s.Ch[1])
		p.W("}")
	}},
	{Name: "XRangePtrArr", Yields: true, Print: func(p *Printer, s *Stmt) {
		p.W("for _, v := range &[2]int{%d, %d} {", p.ID(), p.ID())
		p.W("\t%s", p.Y("c.W("+itoa(p.ID())+", v)"))
		p.W("}")
	}},
	// the yields of the unsupported range body are all nested in another statement
	{Name: "XRangePtrTySw", Yields: true, Print: func(p *Printer, s *Stmt) {
		p.W("for _, v := range &[2]int{%d, %d} {", p.ID(), p.ID())
		p.W("\tswitch any(v).(type) {")
		p.W("\tcase int:")
		p.W("\t\t%s", p.Y("c.W("+itoa(p.ID())+", v)"))
		p.W("\t}")
		p.W("}")
	}},
	{Name: "XRangePtrSw", Yields: true, Print: func(p *Printer, s *Stmt) {
		p.W("for _, v := range &[2]int{%d, %d} {", p.ID(), p.ID())
		p.W("\tswitch {")
		p.W("\tcase v > 0:")
		p.W("\t\t%s", p.Y("c.W("+itoa(p.ID())+", v)"))
		p.W("\t}")
		p.W("}")
	}},
	{Name: "XRangePtrIfFor", Yields: true, Print: func(p *Printer, s *Stmt) {
		p.W("for _, v := range &[2]int{%d, %d} {", p.ID(), p.ID())
		p.W("\tif v > 0 {")
		p.W("\t\tfor k := 0; k < 1; k++ {")
		p.W("\t\t\t%s", p.Y("c.W("+itoa(p.ID())+", v)"))
		p.W("\t\t}")
		p.W("\t}")
		p.W("}")
	}},
	{Name: "XIfInitY", Arity: 1, Yields: true, EventFirst: true, Print: func(p *Printer, s *Stmt) {
		y := yieldStmt(p)
		p.W("if %s; c.B(%d) {", y, p.ID())
		p.Blk(s.Ch[0])
		p.W("}")
	}},
	{Name: "XElifInitY", Arity: 1, Yields: true, EventFirst: true, Print: func(p *Printer, s *Stmt) {
		a := p.ID()
		b := p.ID()
		y := yieldStmt(p)
		p.W("if c.B(%d) {", a)
		p.W("\tc.E(%d)", b)
		p.W("} else if %s; c.B(%d) {", y, p.ID())
		p.Blk(s.Ch[0])
		p.W("}")
	}},
	{Name: "XElifInitY2", Arity: 1, Yields: true, EventFirst: true, Print: func(p *Printer, s *Stmt) {
		a := p.ID()
		b := p.ID()
		y := yieldStmt(p)
		p.W("if c.B(%d) {", a)
		p.W("\tc.E(%d)", b)
		p.W("} else if c.B(%d) {", p.ID())
		p.W("\tc.E(%d)", p.ID())
		p.W("} else if %s; c.B(%d) {", y, p.ID())
		p.Blk(s.Ch[0])
		p.W("} else {")
		p.W("\tc.E(%d)", p.ID())
		p.W("}")
	}},
	{Name: "XSwInitInElif", Arity: 1, Yields: true, EventFirst: true, Print: func(p *Printer, s *Stmt) {
		a := p.ID()
		y := yieldStmt(p)
		p.W("if c.B(%d) {", a)
		p.W("} else {")
		p.W("\tif %s; c.B(%d) {", y, p.ID())
		p.In()
		p.Blk(s.Ch[0])
		p.Out()
		p.W("\t}")
		p.W("}")
	}},
	{Name: "XCloY", Yields: true, Print: func(p *Printer, s *Stmt) {
		p.W("func() {")
		p.W("\t%s", yieldStmt(p))
		p.W("}()")
	}},
	// negative controls: the same constructs inside a nested plain closure must be accepted
	{Name: "NGoto", EventFirst: true, Print: func(p *Printer, s *Stmt) {
		a := p.ID()
		p.W("func() {")
		p.W("\tif c.B(%d) {", a)
		p.W("\t\tgoto L%d", a)
		p.W("\t}")
		p.W("\tc.E(%d)", p.ID())
		p.W("L%d:", a)
		p.W("\tc.E(%d)", p.ID())
		p.W("}()")
	}},
	{Name: "NLbl", EventFirst: true, Print: func(p *Printer, s *Stmt) {
		a := p.ID()
		p.W("func() {")
		p.W("L%d:", a)
		p.W("\tfor c.B(%d) {", a)
		p.W("\t\tfor c.B(%d) {", p.ID())
		p.W("\t\t\tif c.B(%d) {", p.ID())
		p.W("\t\t\t\tcontinue L%d", a)
		p.W("\t\t\t}")
		p.W("\t\t\tbreak L%d", a)
		p.W("\t\t}")
		p.W("\t}")
		p.W("}()")
	}},
	{Name: "NLbl3", EventFirst: false, Print: func(p *Printer, s *Stmt) {
		a := p.ID()
		p.W("func() {")
		p.W("L%d:", a)
		p.W("\tfor i := 0; i < 3; i++ {")
		p.W("\t\tfor j := 0; j < 2; j++ {")
		p.W("\t\t\tif j == 1 {")
		p.W("\t\t\t\tcontinue L%d", a)
		p.W("\t\t\t}")
		p.W("\t\t\tc.X(%d, i*10+j)", p.ID())
		p.W("\t\t\tif i == 2 {")
		p.W("\t\t\t\tbreak L%d", a)
		p.W("\t\t\t}")
		p.W("\t\t}")
		p.W("\t}")
		p.W("}()")
	}},
	// a closure capturing the loop variable of a three-clause loop inside a nested plain closure
	{Name: "NLoopCapture", Print: func(p *Printer, s *Stmt) {
		p.W("func() {")
		p.W("\tvar fs []func() int")
		p.W("\tfor i := 0; i < 3; i++ {")
		p.W("\t\tfs = append(fs, func() int { return i })")
		p.W("\t}")
		p.W("\tfor _, f := range fs {")
		p.W("\t\tc.X(%d, f())", p.ID())
		p.W("\t}")
		p.W("}()")
	}},
	{Name: "NSelectBreak", EventFirst: true, Print: func(p *Printer, s *Stmt) {
		p.W("func() {")
		p.W("\tselect {")
		p.W("\tdefault:")
		p.W("\t\tif c.B(%d) {", p.ID())
		p.W("\t\t\tbreak")
		p.W("\t\t}")
		p.W("\t\tc.E(%d)", p.ID())
		p.W("\t}")
		p.W("\tc.E(%d)", p.ID())
		p.W("}()")
	}},
	{Name: "NSelect", Print: func(p *Printer, s *Stmt) {
		p.W("func() {")
		p.W("\tselect {")
		p.W("\tdefault:")
		p.W("\t\tc.E(%d)", p.ID())
		p.W("\t}")
		p.W("}()")
	}},
	{Name: "NDefer", Print: func(p *Printer, s *Stmt) {
		p.W("func() {")
		p.W("\tdefer c.E(%d)", p.ID())
		p.W("\tc.E(%d)", p.ID())
		p.W("}()")
	}},
	{Name: "NFall", EventFirst: true, Print: func(p *Printer, s *Stmt) {
		p.W("func() {")
		p.W("\tswitch c.I(%d) {", p.ID())
		p.W("\tcase 0:")
		p.W("\t\tc.E(%d)", p.ID())
		p.W("\t\tfallthrough")
		p.W("\tdefault:")
		p.W("\t\tc.E(%d)", p.ID())
		p.W("\t}")
		p.W("}()")
	}},
	{Name: "NRangePtrArr", Print: func(p *Printer, s *Stmt) {
		p.W("func() {")
		p.W("\tfor i, v := range &[3]int{%d, %d, %d} {", p.ID(), p.ID(), p.ID())
		p.W("\t\tif i == 0 {")
		p.W("\t\t\tcontinue")
		p.W("\t\t}")
		p.W("\t\tc.X(%d, v)", p.ID())
		p.W("\t\tif i == 1 {")
		p.W("\t\t\tbreak")
		p.W("\t\t}")
		p.W("\t}")
		p.W("}()")
	}},
}

func init() {
	CFAll.Kinds = append(CFAll.Kinds, injectKinds...)
	CFAll.byN = nil
}

// InjectStmts: the statements that are inserted (compounds get minimal bodies).
func InjectStmts() []*Stmt {
	y, e := &Stmt{K: "Y"}, &Stmt{K: "E"}
	return []*Stmt{
		{K: "XGoto"}, {K: "XGotoY"},
		{K: "XLblBrk", Ch: [][]*Stmt{{y}}}, {K: "XLblCont", Ch: [][]*Stmt{{y}}},
		{K: "XLblBrk", Ch: [][]*Stmt{{e}}},
		{K: "XSelect", Ch: [][]*Stmt{{y}}}, {K: "XSelect", Ch: [][]*Stmt{{e}}},
		{K: "XDefer"}, {K: "XDeferIf"}, {K: "XDeferLoop"}, {K: "XSelectBrk"}, {K: "NRangePtrBrk"},
		{K: "XFall", Ch: [][]*Stmt{{y}, {e}}}, {K: "XFall", Ch: [][]*Stmt{{e}, {y}}},
		{K: "XRangePtrArr"}, {K: "XRangePtrTySw"}, {K: "XRangePtrSw"}, {K: "XRangePtrIfFor"},
		{K: "XIfInitY", Ch: [][]*Stmt{{e}}}, {K: "XIfInitY", Ch: [][]*Stmt{{y}}},
		{K: "XCloY"},
		{K: "XElifInitY", Ch: [][]*Stmt{{e}}}, {K: "XElifInitY", Ch: [][]*Stmt{{y}}}, {K: "XElifInitY2", Ch: [][]*Stmt{{e}}}, {K: "XSwInitInElif", Ch: [][]*Stmt{{e}}},
		{K: "NGoto"}, {K: "NLbl"}, {K: "NLbl3"}, {K: "NLoopCapture"}, {K: "NSelectBreak"}, {K: "NSelect"}, {K: "NDefer"}, {K: "NFall"}, {K: "NRangePtrArr"},
	}
}

// Insertions returns every program obtained from base by inserting x at one statement position
// (any list, any index not after a jump).
func Insertions(f *Family, base List, x *Stmt) []List {
	var out []List
	var walk func(cur List, rebuild func(List) List)
	walk = func(cur List, rebuild func(List) List) {
		for i := 0; i <= len(cur); i++ {
			if i > 0 && f.Kind(cur[i-1].K).Jump {
				break
			}
			nl := make(List, 0, len(cur)+1)
			nl = append(nl, cur[:i]...)
			nl = append(nl, x)
			nl = append(nl, cur[i:]...)
			out = append(out, rebuild(nl))
		}
		for i, s := range cur {
			for ci, ch := range s.Ch {
				i, ci, s := i, ci, s
				walk(ch, func(nl List) List {
					ns := &Stmt{K: s.K, Ch: make([][]*Stmt, len(s.Ch))}
					copy(ns.Ch, s.Ch)
					ns.Ch[ci] = nl
					nc := append(List{}, cur...)
					nc[i] = ns
					return rebuild(nc)
				})
			}
		}
	}
	walk(base, func(l List) List { return l })
	return out
}
