// Package gen is the mini-language of the program-level checks: statement trees, families
// (alphabets), bounded enumeration, the two printers (S: source for go-co, R: the same text on
// the reference coroutine) and one-step reductions.
package gen

import (
	"fmt"
	"strings"
)

// Stmt is an atom (no children) or a compound with child statement lists.
type Stmt struct {
	K  string
	Ch [][]*Stmt
}

type List = []*Stmt

// Kind describes one production of a family.
type Kind struct {
	Name  string
	Arity int // number of child lists; 0 = atom
	// context
	Loop   bool // children may use break and continue
	Switch bool // children may use break
	Func   bool // children are a new function body (no break/continue from outside)
	Jump   bool // atom that ends a list (break/continue/return)
	NeedL  bool // only valid inside a loop
	NeedB  bool // only valid inside a loop or switch
	// properties used for pruning
	Yields     bool // produces a yield by itself
	EventFirst bool // its first action logs an event (so a loop starting with it cannot spin silently)
	Infinite   bool // loop without a condition: spins unless its body starts with an event
	Print      func(p *Printer, s *Stmt)
}

type Family struct {
	Name  string
	Kinds []*Kind
	byN   map[string]*Kind
}

func (f *Family) Kind(name string) *Kind {
	if f.byN == nil {
		f.byN = map[string]*Kind{}
		for _, k := range f.Kinds {
			f.byN[k.Name] = k
		}
	}
	k := f.byN[name]
	if k == nil {
		if name == "Y0" {
			return nil
		}
		panic("gen: unknown kind " + name + " in family " + f.Name)
	}
	return k
}

func (f *Family) Sub(name string, kinds ...string) *Family {
	n := &Family{Name: name}
	for _, k := range kinds {
		n.Kinds = append(n.Kinds, f.Kind(k))
	}
	return n
}

// ---- enumeration: all statement lists of total size n (size = number of statements)

type ctx struct{ loop, sw bool }

type enumerator struct {
	f    *Family
	memo map[string][]List
	smem map[string][]*Stmt
}

// Enumerate returns every list of exactly size n valid at function top level, with jumps only in
// last position of a list (statements after a jump are dead code, which go-co drops by design).
func (f *Family) Enumerate(n int) []List {
	e := &enumerator{f: f, memo: map[string][]List{}, smem: map[string][]*Stmt{}}
	return e.lists(n, ctx{}, true)
}

func (e *enumerator) lists(n int, c ctx, jumps bool) []List {
	key := fmt.Sprintf("%d/%v/%v/%v", n, c.loop, c.sw, jumps)
	if r, ok := e.memo[key]; ok {
		return r
	}
	var res []List
	if n == 0 {
		res = []List{{}}
	} else {
		for k := 1; k <= n; k++ {
			for _, pre := range e.lists(n-k, c, false) {
				for _, s := range e.stmts(k, c, jumps) {
					l := make(List, len(pre)+1)
					copy(l, pre)
					l[len(pre)] = s
					res = append(res, l)
				}
			}
		}
	}
	e.memo[key] = res
	return res
}

func (e *enumerator) stmts(k int, c ctx, jumps bool) []*Stmt {
	key := fmt.Sprintf("%d/%v/%v/%v", k, c.loop, c.sw, jumps)
	if r, ok := e.smem[key]; ok {
		return r
	}
	var res []*Stmt
	for _, kd := range e.f.Kinds {
		if kd.Arity == 0 {
			if k != 1 {
				continue
			}
			if kd.Jump && !jumps {
				continue
			}
			if kd.NeedL && !c.loop {
				continue
			}
			if kd.NeedB && !(c.loop || c.sw) {
				continue
			}
			res = append(res, &Stmt{K: kd.Name})
			continue
		}
		cc := c
		switch {
		case kd.Func:
			cc = ctx{}
		case kd.Loop:
			cc = ctx{loop: true, sw: false}
		case kd.Switch:
			cc.sw = true
		}
		for _, parts := range e.dist(k-1, kd.Arity, cc) {
			res = append(res, &Stmt{K: kd.Name, Ch: parts})
		}
	}
	e.smem[key] = res
	return res
}

func (e *enumerator) dist(m, ar int, c ctx) [][]List {
	if ar == 0 {
		if m == 0 {
			return [][]List{{}}
		}
		return nil
	}
	var res [][]List
	for j := 0; j <= m; j++ {
		for _, l := range e.lists(j, c, true) {
			for _, rest := range e.dist(m-j, ar-1, c) {
				parts := make([]List, 0, ar)
				parts = append(parts, l)
				parts = append(parts, rest...)
				res = append(res, parts)
			}
		}
	}
	return res
}

// ---- predicates

func (f *Family) HasYield(l List) bool {
	for _, s := range l {
		if f.Kind(s.K).Yields {
			return true
		}
		for _, ch := range s.Ch {
			if f.HasYield(ch) {
				return true
			}
		}
	}
	return false
}

// Spins: some condition-less loop whose body does not start with an event.
func (f *Family) Spins(l List) bool {
	for _, s := range l {
		k := f.Kind(s.K)
		if k.Infinite {
			body := s.Ch[0]
			if len(body) == 0 || !f.Kind(body[0].K).EventFirst {
				return true
			}
		}
		for _, ch := range s.Ch {
			if f.Spins(ch) {
				return true
			}
		}
	}
	return false
}

func Size(l List) int {
	n := 0
	for _, s := range l {
		n++
		for _, ch := range s.Ch {
			n += Size(ch)
		}
	}
	return n
}

// Show is the canonical S-expression form used as key in findings.
func Show(l List) string {
	var sb strings.Builder
	show(&sb, l)
	return sb.String()
}

func show(sb *strings.Builder, l List) {
	sb.WriteByte('[')
	for i, s := range l {
		if i > 0 {
			sb.WriteByte(' ')
		}
		sb.WriteString(s.K)
		for _, ch := range s.Ch {
			show(sb, ch)
		}
	}
	sb.WriteByte(']')
}

// Parse is the inverse of Show.
func Parse(s string) (List, error) {
	p := &parser{s: s}
	l, err := p.list()
	if err != nil {
		return nil, err
	}
	if p.i != len(s) {
		return nil, fmt.Errorf("trailing input at %d", p.i)
	}
	return l, nil
}

type parser struct {
	s string
	i int
}

func (p *parser) list() (List, error) {
	if p.i >= len(p.s) || p.s[p.i] != '[' {
		return nil, fmt.Errorf("expected [ at %d", p.i)
	}
	p.i++
	l := List{}
	for {
		if p.i >= len(p.s) {
			return nil, fmt.Errorf("unterminated list")
		}
		if p.s[p.i] == ']' {
			p.i++
			return l, nil
		}
		if p.s[p.i] == ' ' {
			p.i++
			continue
		}
		j := p.i
		for j < len(p.s) && p.s[j] != '[' && p.s[j] != ']' && p.s[j] != ' ' {
			j++
		}
		st := &Stmt{K: p.s[p.i:j]}
		p.i = j
		for p.i < len(p.s) && p.s[p.i] == '[' {
			ch, err := p.list()
			if err != nil {
				return nil, err
			}
			st.Ch = append(st.Ch, ch)
		}
		l = append(l, st)
	}
}

// Reductions returns the keys of all one-step reductions of l: delete one statement, or replace
// a compound by one of its child lists (spliced in place).
func Reductions(l List) []string {
	var out []string
	var walk func(cur List, rebuild func(List) List)
	walk = func(cur List, rebuild func(List) List) {
		for i, s := range cur {
			// delete statement i
			del := append(append(List{}, cur[:i]...), cur[i+1:]...)
			out = append(out, Show(rebuild(del)))
			for ci, ch := range s.Ch {
				// splice child list in place of the compound
				sp := append(append(append(List{}, cur[:i]...), ch...), cur[i+1:]...)
				out = append(out, Show(rebuild(sp)))
				// recurse into the child
				i, ci, s := i, ci, s
				walk(ch, func(nl List) List {
					ns := &Stmt{K: s.K, Ch: make([][]*Stmt, len(s.Ch))}
					copy(ns.Ch, s.Ch)
					ns.Ch[ci] = nl
					nc := append(List{}, cur...)
					nc[i] = ns
					return rebuild(nc)
				})
			}
		}
	}
	walk(l, func(x List) List { return x })
	return out
}

// ---- printing

type Printer struct {
	F   *Family
	Ref bool
	n   int
	out []string
	ind int
	// Fn is the program's name; helpers declared by a program are prefixed with it.
	Fn string
	// Pre collects top-level declarations the program needs besides its function.
	Pre []string
}

func (p *Printer) ID() int { p.n++; return p.n }
func (p *Printer) W(format string, a ...any) {
	p.out = append(p.out, strings.Repeat("\t", p.ind)+fmt.Sprintf(format, a...))
}

// Y renders a yield of expression e.
func (p *Printer) Y(e string) string {
	if p.Ref {
		return "y.Yield(" + e + ")"
	}
	return "Yield(" + e + ")"
}

// YF renders a delegation.
func (p *Printer) YF(e string) string {
	if p.Ref {
		return "y.YieldFrom(" + e + ")"
	}
	return "YieldFrom(" + e + ")"
}

// Ret renders the generator's return statement.
func (p *Printer) Ret() string {
	if p.Ref {
		return "return"
	}
	return "return nil"
}

// RetExpr renders `return e` of a generator: in the reference the operand is evaluated, ignored, and the body returns.
func (p *Printer) RetExpr(e string) {
	if p.Ref {
		p.W("_ = %s", e)
		p.W("return")
		return
	}
	p.W("return %s", e)
}

// IterT renders the iterator type of element type t.
func (p *Printer) IterT(t string) string {
	if p.Ref {
		return "refco.Iter[" + t + "]"
	}
	return "Iter[" + t + "]"
}

// GenOpen / GenClose wrap a generator body: in S it is just the function body, in R the body is
// the coroutine function handed to refco.New.
func (p *Printer) GenOpen(t string) {
	if p.Ref {
		p.W("return refco.New(c, func(y *refco.Y[%s]) {", t)
		p.ind++
	}
}
func (p *Printer) GenClose() {
	if p.Ref {
		p.ind--
		p.W("})")
	}
}

func (p *Printer) In()  { p.ind++ }
func (p *Printer) Out() { p.ind-- }

func (p *Printer) Blk(l List) {
	p.ind++
	for _, s := range l {
		p.Stmt(s)
	}
	p.ind--
}

func (p *Printer) Stmt(s *Stmt) { p.F.Kind(s.K).Print(p, s) }

func (p *Printer) Lines() string { return strings.Join(p.out, "\n") }

// endsInJump: the last statement of l is a return (so no trailing return is needed).
func endsInReturn(l List) bool {
	return len(l) > 0 && (l[len(l)-1].K == "Rt" || strings.HasPrefix(l[len(l)-1].K, "Rt"))
}

// endsInInfiniteLoop: the last statement is a condition-less loop without a break of its own, so
// the function needs no trailing return (the natural style, e.g. README's Fibonacci).
func (f *Family) endsInInfiniteLoop(l List) bool {
	if len(l) == 0 {
		return false
	}
	last := l[len(l)-1]
	return f.Kind(last.K).Infinite && !f.hasDirectBreak(last.Ch[0])
}

func (f *Family) hasDirectBreak(l List) bool {
	for _, s := range l {
		if s.K == "Br" {
			return true
		}
		k := f.Kind(s.K)
		if k.Loop || k.Switch || k.Func {
			continue
		}
		for _, ch := range s.Ch {
			if f.hasDirectBreak(ch) {
				return true
			}
		}
	}
	return false
}

// PrintGen prints `func <name>(c *rt.Ctx) Iter[int] { body }` in S or R form.
func (f *Family) PrintGen(name string, body List, ref bool) string {
	p := &Printer{F: f, Ref: ref, Fn: name, ind: 0}
	p.W("func %s(c *rt.Ctx) %s {", name, p.IterT("int"))
	p.ind++
	p.GenOpen("int")
	for _, s := range body {
		p.Stmt(s)
	}
	if !endsInReturn(body) && !f.endsInInfiniteLoop(body) {
		p.W("%s", p.Ret())
	}
	p.GenClose()
	p.ind--
	p.W("}")
	pre := strings.Join(p.Pre, "\n")
	if pre != "" {
		pre += "\n"
	}
	return pre + p.Lines() + "\n"
}
