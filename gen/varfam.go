package gen

// VAR family (C03): declare / shadow / update / capture / call / read of a local x at arbitrary
// positions relative to yields and to block, loop-header, switch-init, type-switch and range scopes.
//
// Every program runs in the prelude
//
//	x := 1; f := func() int { return -1 }; g := f
//
// and ends with a read of x and of g().

var varKinds = []*Kind{
	{Name: "YX", Yields: true, EventFirst: true, Print: func(p *Printer, s *Stmt) { p.W("%s", p.Y("c.W("+itoa(p.ID())+", x)")) }},
	{Name: "EX", EventFirst: true, Print: func(p *Printer, s *Stmt) { p.W("c.X(%d, x)", p.ID()) }},
	{Name: "Decl", Print: func(p *Printer, s *Stmt) { p.W("x := x*10 + %d", p.ID()); p.W("_ = x") }},
	{Name: "Upd", Print: func(p *Printer, s *Stmt) { p.W("x = x*3 + %d", p.ID()) }},
	{Name: "MkClo", Print: func(p *Printer, s *Stmt) { p.W("f = func() int { x += %d; return x }", 100*p.ID()) }},
	{Name: "CallClo", EventFirst: true, Print: func(p *Printer, s *Stmt) { p.W("c.X(%d, f())", p.ID()) }},
	{Name: "MkGet", Print: func(p *Printer, s *Stmt) { p.W("g = func() int { return x }") }},
	{Name: "CallGet", EventFirst: true, Print: func(p *Printer, s *Stmt) { p.W("c.X(%d, g())", p.ID()) }},

	// multi-name short declaration that re-declares x next to a new name
	{Name: "Decl2", Print: func(p *Printer, s *Stmt) { p.W("x, w2 := x*10+%d, 1", p.ID()); p.W("_, _ = x, w2") }},
	// re-declaration from untyped constants: they take the type of the variable they are assigned to
	{Name: "Decl2C", Print: func(p *Printer, s *Stmt) { p.W("x, w3 := %d.0, 1.5", p.ID()); p.W("_, _ = x, w3") }},
	// pointer to the current x, read later
	{Name: "MkPtr", Print: func(p *Printer, s *Stmt) { p.W("g = func(p *int) func() int { return func() int { return *p } }(&x)") }},
	// range over an iterator inside the generator: x := range VSrc(c)
	{Name: "RangeIter", Arity: 1, Loop: true, EventFirst: true, Print: func(p *Printer, s *Stmt) {
		if !p.Ref {
			p.W("for x := range VSrc(c) {")
			p.Blk(s.Ch[0])
			p.W("}")
			return
		}
		// reference: the pull loop; one variable per loop (go < 1.22), body in its own scope
		p.W("{")
		p.In()
		p.W("var x int")
		p.W("_ = x")
		p.W("for it := VSrc(c); it.MoveNext(); {")
		p.In()
		p.W("x = it.Current()")
		p.W("{")
		p.Blk(s.Ch[0])
		p.W("}")
		p.Out()
		p.W("}")
		p.Out()
		p.W("}")
	}},
	{Name: "IfElse", Arity: 2, EventFirst: true, Print: func(p *Printer, s *Stmt) {
		p.W("if c.B(%d) {", p.ID())
		p.Blk(s.Ch[0])
		p.W("} else {")
		p.Blk(s.Ch[1])
		p.W("}")
	}},
	{Name: "IfInit", Arity: 2, EventFirst: true, Print: func(p *Printer, s *Stmt) {
		a := p.ID()
		p.W("if x := x + %d; c.B(%d) {", a, p.ID())
		p.Blk(s.Ch[0])
		p.W("} else {")
		p.Blk(s.Ch[1])
		p.W("}")
	}},
	{Name: "Loop2", Arity: 1, Loop: true, Print: func(p *Printer, s *Stmt) {
		p.W("for n := 0; n < 2; n++ {")
		p.Blk(s.Ch[0])
		p.W("}")
	}},
	{Name: "ForShadow", Arity: 1, Loop: true, Print: func(p *Printer, s *Stmt) {
		p.W("for x := x + 1; x < 4; x++ {")
		p.Blk(s.Ch[0])
		p.W("}")
	}},
	// post statements live in the scope of the loop header, not of the body: a body-level x := must not leak into them
	{Name: "ForPostYX", Arity: 1, Loop: true, Yields: true, Print: func(p *Printer, s *Stmt) {
		p.W("for n := 0; n < 2; %s {", p.Y("c.W("+itoa(p.ID())+", x)"))
		p.In()
		p.W("n++")
		p.Out()
		p.Blk(s.Ch[0])
		p.W("}")
	}},
	// the post statement mentions x only inside a function literal
	{Name: "ForPostYClo", Arity: 1, Loop: true, Yields: true, Print: func(p *Printer, s *Stmt) {
		p.W("for n := 0; n < 2; %s {", p.Y("c.W("+itoa(p.ID())+", func() int { return x }())"))
		p.In()
		p.W("n++")
		p.Out()
		p.Blk(s.Ch[0])
		p.W("}")
	}},
	// the post statement delegates to a generator that reads x through a closure
	{Name: "ForPostYFClo", Arity: 1, Loop: true, Yields: true, Print: func(p *Printer, s *Stmt) {
		p.W("for n := 0; n < 2; %s {", p.YF("VSub(c, func() int { return x })"))
		p.In()
		p.W("n++")
		p.Out()
		p.Blk(s.Ch[0])
		p.W("}")
	}},
	{Name: "ForPostUpd", Arity: 1, Loop: true, Print: func(p *Printer, s *Stmt) {
		p.W("for n := 0; n < 2; x = x*5 + %d {", p.ID())
		p.In()
		p.W("n++")
		p.Out()
		p.Blk(s.Ch[0])
		p.W("}")
	}},
	{Name: "SwShadow", Arity: 2, Switch: true, Print: func(p *Printer, s *Stmt) {
		p.W("switch x := x + %d; x %% 2 {", p.ID())
		p.W("case 0:")
		p.Blk(s.Ch[0])
		p.W("default:")
		p.Blk(s.Ch[1])
		p.W("}")
	}},
	// plain switch: the clause bodies are statement lists without an enclosing block statement
	{Name: "SwPlain", Arity: 2, Switch: true, EventFirst: true, Print: func(p *Printer, s *Stmt) {
		p.W("switch c.I(%d) {", p.ID())
		p.W("case 0:")
		p.Blk(s.Ch[0])
		p.W("default:")
		p.Blk(s.Ch[1])
		p.W("}")
	}},
	{Name: "TySwPlain", Arity: 1, Switch: true, EventFirst: true, Print: func(p *Printer, s *Stmt) {
		p.W("switch c.Any(%d).(type) {", p.ID())
		p.W("case int:")
		p.Blk(s.Ch[0])
		p.W("}")
	}},
	{Name: "TySwShadow", Arity: 1, Switch: true, Print: func(p *Printer, s *Stmt) {
		p.W("switch x := any(x + %d).(type) {", p.ID())
		p.W("case int:")
		p.Blk(s.Ch[0])
		p.W("}")
	}},
	{Name: "Block", Arity: 1, Print: func(p *Printer, s *Stmt) {
		p.W("{")
		p.Blk(s.Ch[0])
		p.W("}")
	}},
	{Name: "RangeDef", Arity: 1, Loop: true, Print: func(p *Printer, s *Stmt) {
		p.W("for _, x := range []int{x + 7, x + 8} {")
		p.Blk(s.Ch[0])
		p.W("}")
	}},
	{Name: "RangeAsg", Arity: 1, Loop: true, Print: func(p *Printer, s *Stmt) {
		p.W("for _, x = range []int{x + 7, x + 8} {")
		p.Blk(s.Ch[0])
		p.W("}")
	}},
}

var VAR = &Family{Name: "VAR", Kinds: varKinds}

// PrintVarGen prints a VAR program with its prelude and epilogue.
func (f *Family) PrintVarGen(name string, body List, ref bool) string {
	p := &Printer{F: f, Ref: ref, Fn: name}
	p.W("func %s(c *rt.Ctx) %s {", name, p.IterT("int"))
	p.In()
	p.GenOpen("int")
	p.W("x := 1")
	p.W("f := func() int { return -1 }")
	p.W("g := f")
	for _, s := range body {
		p.Stmt(s)
	}
	p.W("c.X(9000, x)")
	p.W("c.X(9001, g())")
	p.W("c.X(9002, f())")
	p.W("%s", p.Ret())
	p.GenClose()
	p.Out()
	p.W("}")
	return p.Lines() + "\n"
}

// VarPrograms: all VAR programs of size lo..hi with a direct yield.
func VarPrograms(lo, hi int) []List {
	var out []List
	for n := lo; n <= hi; n++ {
		for _, l := range VAR.Enumerate(n) {
			if VAR.DirectYield(l) {
				out = append(out, l)
			}
		}
	}
	return out
}

// VarSExtra / VarRExtra: the helper generator of the RangeIter kind, in both dialects.
const VarSExtra = `package src

import (
	. "github.com/goghcrow/go-co"
	"verif/rt"
)

func VSrc(c *rt.Ctx) Iter[int] {
	c.E(8001)
	Yield(7)
	c.E(8002)
	Yield(8)
	return nil
}

func VSub(c *rt.Ctx, f func() int) Iter[int] {
	Yield(c.W(8003, f()))
	return nil
}
`

const VarRExtra = `package ref

import (
	"verif/refco"
	"verif/rt"
)

func VSrc(c *rt.Ctx) refco.Iter[int] {
	return refco.New(c, func(y *refco.Y[int]) {
		c.E(8001)
		y.Yield(7)
		c.E(8002)
		y.Yield(8)
	})
}
`
